"""C20 - bridge parameters set from the execution layer stay within safe bounds."""
from lib import verif
from checks import bridge_common as bc

RULE = ("TLC: every sequence (bounded length) of tax / minimum-deposit / confirmation updates over boundary values {0, 1, 999, 1000, 1001, "
        "9999, 10000, 10001, 1e8, 1e8+1, 2e9} from two boundary initial parameter sets, interleaved with deposits; real histories: the same "
        "boundary values sent as real execution-layer request lists, followed by deposits of boundary values (999..30000 sat); TLC compares "
        "the stored parameters and the credited amount / tax of every delivered deposit")


def run(tier, seed, work):
    quick = tier == "quick"
    mc = [("MC_Bridge.tla", "MC_Bridge_params.cfg" if quick else "MC_Bridge_params_thorough.cfg")]
    per, depth, nj = (6, 40, 12) if quick else (25, 50, 12)
    groups = [("Trace_Bridge.tla", "Trace_Bridge_C20.cfg", bc.jobs("c20", seed + 2, per, depth, nj, mode="params"))]
    proofs = [verif.prove("Proofs_BridgeArith", work)]   # TLAPS: tax < value, credited amount > 0, tax <= cap, accepted tax pairs keep the rate below 100% - for every value
    return verif.run_stateful_check("C20", tier, seed, work, mc_list=mc, groups=groups, key_fn=bc.key,
                                    level="model_checking", extra_cov=dict(unbounded_lemmas=proofs), assumptions=bc.ASSUME + ["64-bit values above 2^31 are represented by 2e9 in the model and by 2^63 / 2^64-1 in the driver"], rule=RULE)
