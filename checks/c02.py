"""C02 - a vote is single-use: the sequence advances exactly once per accepted proposal."""
from lib import verif
from checks import relayer_common as rc

ASSUME = ["ideal BLS (see C01)", "transaction-level rollback of failed messages is cosmos-sdk's; it is observed (state equality), not assumed"]
RULE = ("random histories of the real app mixing genuine votes (full / minimal / one-short quorums), immediate re-submission in a fresh "
        "transaction, late re-submission from a pool of every vote ever produced (same kind and other kinds, envelope fields fixed up or "
        "not), registrations, acceptances, execution-layer add/remove lists and elections; per event TLC checks the verdict and, per "
        "block, sequence, accumulator (as the chain over accepted vote ids), accepted flag, tip/key and a digest of the bridge store; "
        "distinct = distinct events ignoring run/ids")


def run(tier, seed, work):
    quick = tier == "quick"
    import os
    # MC_Voted also writes the case table (cases.ndjson) that the second group replays: every corruption of the signed context
    # (sequence, epoch, proposer, action, chain) and of the payload (every field, and the ORDER of its items) must be refused
    mc = [("MC_Relayer.tla", "MC_Relayer_quick.cfg" if quick else "MC_Relayer_thorough.cfg"), ("MC_Voted.tla", "MC_Voted_quick.cfg")]
    per, depth, nj = (8, 30, 16) if quick else (40, 40, 16)
    groups = [("Trace_Relayer.tla", "Trace_Relayer_C02.cfg", rc.jobs(seed, per, depth, nj, 3, 2, "c02")),
              # the sequence and the accumulator must survive a restart from an exported state (a reset sequence re-opens used votes)
              ("Trace_Relayer.tla", "Trace_Relayer_C02_reimport.cfg", [("c02reimp_%d" % j, ["reimport", "-n", 2 if quick else 12, "-depth", 30, "-seed", seed * 1000 + 350 + j, "-mode", "relayer"]) for j in range(4 if quick else 8)]),
              ("Trace_Relayer.tla", "Trace_Relayer_C02_static.cfg", [("c02table", ["voted", "-cases", os.path.join(work, "cases.ndjson"), "-inst", 1, "-seed", seed + 9])])]
    return verif.run_stateful_check("C02", tier, seed, work, mc_list=mc, groups=groups, key_fn=rc.key,
                                    level="model_checking", assumptions=ASSUME, rule=RULE)
