from lib import verif


def jobs(tag, seed, per_job, depth, njobs, mode="", network="regtest"):
    out = []
    for j in range(njobs):
        a = ["bridge", "-n", per_job, "-depth", depth, "-seed", seed * 1000 + j, "-network", network]
        if mode:
            a += ["-mode", mode]
        out.append(("%s_%s_%d" % (tag, network, j), a))
    return out


def key(ev):
    e = ev.get("ev")
    if e == "deposits":
        flaws = "+".join(sorted(set(d.get("flaw", "?") for d in ev.get("deps", []))))
        return "deposits/%s/impl-ok=%s" % (flaws, ev.get("ok"))
    if e in ("hashes", "pubkey", "process", "replace", "finalize", "approve", "consolidation"):
        return "%s/impl-ok=%s" % (e, ev.get("ok"))
    if e == "blockmsg":
        r = ev.get("r", {})
        kinds = "+".join(k for k in ("withdraws", "rbf", "cancel1", "tax", "conf", "minDep") if r.get(k))
        return "blockmsg/%s/impl-ok=%s" % (kinds or "none", ev.get("ok"))
    return "bridge/%s" % e


ASSUME = ["ideal hashing: block hashes, txids and Merkle nodes are compared by identity (first 6 bytes as interned id); SHA-256 collisions excluded",
          "votes attached to voted messages are genuine full-group votes unless built otherwise (quorum verification itself is C01/C02)",
          "the execution layer allocates withdrawal ids from a counter (a repeated id would overwrite the record; that input is not generated)",
          "fee-rate comparison on integers below 2^31 (the implementation's float64 division is exact there)"]
