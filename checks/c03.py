"""C03 - deposits: SPV-proven, script-bound, matured, credited at most once, value-exact."""
from lib import verif
from checks import bridge_common as bc

RULE = ("random histories with a simulated Bitcoin chain (real transactions, 80-byte headers, reference Merkle trees of 2..8 leaves): deposit "
        "transactions are built from the node's own DepositAddress answers (v0 P2WSH / P2TR tweak, v1 P2WPKH + OP_RETURN), mined, voted in "
        "with real votes and submitted genuine or with one of 14 flaws (other EVM address, other / unregistered key, wrong version, output "
        "index out of range / other output, shifted position, aliased position, forged / truncated proof, header of another block, missing "
        "header, short EVM address, truncated tx), duplicated inside a batch, across batches and blocks, before their block is voted, and - "
        "in the deep histories - as coinbase transactions before and after 100 voted blocks lie above; tax parameters are changed on the way")


def run(tier, seed, work):
    quick = tier == "quick"
    mc = [("MC_Bridge.tla", "MC_Bridge_deposits.cfg" if quick else "MC_Bridge_deposits_thorough.cfg")]
    per, depth, nj = (6, 40, 12) if quick else (25, 50, 12)
    js = bc.jobs("c03", seed, per, depth, nj) + bc.jobs("c03deep", seed + 5, max(1, per // 2), depth, 4, mode="deep") + bc.jobs("c03burst", seed + 6, max(2, per // 2), depth, 3, mode="burst")
    # "at most once in the lifetime of the chain" spans restarts from an exported state: mixed histories with export / import
    # cycles, continued on the imported chain (the deposited set must survive, re-submitted deposits must be refused)
    rj = [("c03reimp_%d" % j, ["reimport", "-n", 2 if quick else 12, "-depth", 30, "-seed", seed * 1000 + 300 + j, "-mode", "bridge"]) for j in range(4 if quick else 8)]
    groups = [("Trace_Bridge.tla", "Trace_Bridge_C03.cfg", js), ("Trace_Bridge.tla", "Trace_Bridge_C03.cfg", rj)]
    proofs = [verif.prove("Proofs_BridgeArith", work)]   # TLAPS: tax < value and >= 0 for every value and every safe parameter set
    return verif.run_stateful_check("C03", tier, seed, work, mc_list=mc, groups=groups, key_fn=bc.key,
                                    level="model_checking", extra_cov=dict(unbounded_lemmas=proofs), assumptions=bc.ASSUME, rule=RULE)
