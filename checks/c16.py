"""C16 - the relayer group stays well-formed; members join by proof; elections are timely."""
from lib import verif
from checks import relayer_common as rc

ASSUME = ["ECDSA/BLS proofs of possession are sound (ideal crypto): a proof verifies iff made by the key holder over exactly the "
          "(chain, proposer, epoch, height, address, key hash) tuple",
          "the election index is the accumulator hash reduced modulo the electorate size; the hash itself is opaque"]
RULE = ("random histories with execution-layer add/remove lists (members, non-members, the proposer, duplicates, removal down to one "
        "member), registrations valid / forged in 7 ways (wrong key hash, foreign tx proof, foreign BLS proof, other epoch, other chain, "
        "other height, wrong size) / for re-joining addresses, acceptances with right and wrong epochs, block time steps 0..3 around the "
        "electing period and accept timeout, three parameter settings incl. timeout 0; TLC checks every verdict, the full group, queues, "
        "records, epoch and election time per block and the well-formedness invariants in every observed state")


def run(tier, seed, work):
    quick = tier == "quick"
    mc = [("MC_Relayer.tla", "MC_Relayer_quick.cfg" if quick else "MC_Relayer_thorough.cfg")]
    per, depth, nj = (5, 30, 6) if quick else (30, 40, 6)
    groups = []
    for tag, period, timeout, cfg in rc.VARIANTS:
        cfg16 = cfg.replace("Trace_Relayer_", "Trace_Relayer_C16_").replace("rand", "p3t2")
        groups.append(("Trace_Relayer.tla", cfg16, rc.jobs(seed + 7, per, depth, nj, period, timeout, "c16" + tag)))
    # the group must stay well-formed across a restart from an exported state (members awaiting removal included)
    groups.append(("Trace_Relayer.tla", "Trace_Relayer_C16_reimport.cfg", [("c16reimp_%d" % j, ["reimport", "-n", 2 if quick else 12, "-depth", 30, "-seed", seed * 1000 + 330 + j, "-mode", "relayer"]) for j in range(4 if quick else 8)]))
    return verif.run_stateful_check("C16", tier, seed, work, mc_list=mc, groups=groups, key_fn=rc.key,
                                    level="model_checking", assumptions=ASSUME, rule=RULE)
