"""C15 - unlocked funds are released only after the unlock or exit delay, once."""
from lib import verif
from checks import locking_common as lc

RULE = ("random histories with unlock 2 / exit 4 ticks, block time steps 0..3 (equal timestamps included), plus burst histories in which "
        "more than 16 unlocks mature together; per block TLC compares both unlock queues, the nonce and the decoded complete-unlock system "
        "transactions of the payload with the specification and evaluates delivery time >= request time + delay and delivered-once")


def run(tier, seed, work):
    quick = tier == "quick"
    mc = [("MC_Locking.tla", "MC_Locking_base.cfg" if quick else "MC_Locking_C15_thorough.cfg")]
    return verif.run_stateful_check("C15", tier, seed, work, mc_list=mc, groups=lc.groups("C15", seed + 4, quick, modes=("", "burst")), key_fn=lc.key,
                                    level="model_checking", assumptions=lc.COMMON_ASSUME, rule=RULE)
