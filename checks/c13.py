"""C13 - the validator set is the top-K by power; every update is acceptable to CometBFT."""
from lib import verif
from checks import locking_common as lc

RULE = ("random histories with MaxValidators 2 over 5 validators: ties, zero-power results, simultaneous joins and leaves, demotions, jailing "
        "and tombstoning of members; the reported updates are fed to a real cmttypes.ValidatorSet (its verdict is logged); per block TLC "
        "compares the update set, ranking, recorded set, statuses and powers with the specification and evaluates comet = record, top-K, "
        "ranking/index consistency; any FinalizeBlock failure is a `halt` event no action explains")


def bigkey(ev):
    if ev.get("ev") == "block" and "imbalance" in ev and not ev.get("cometOk") and ev.get("extreme"):
        return "large-scale/extreme-token-configuration/comet-refuses/%s" % ev.get("cometClass")
    if ev.get("ev") == "block" and "imbalance" in ev:
        return "large-scale/imbalance=%s/signs=%s,%s,%s,%s/cometOk=%s" % (ev.get("imbalance") != 0, ev.get("goatSign"), ev.get("gasSign"), ev.get("remainSign"), ev.get("accruedSign"), ev.get("cometOk"))
    return lc.key(ev)


def run(tier, seed, work):
    quick = tier == "quick"
    mc = [("MC_Locking.tla", "MC_Locking_base.cfg" if quick else "MC_Locking_C11_thorough.cfg")]
    big = [("c13_big_%d" % j, ["rewardbig", "-n", 4 if quick else 30, "-depth", 40, "-seed", seed * 1000 + 500 + j]) for j in range(4)]
    # "exodus" histories end with every validator (the bedrock one included) withdrawing everything in one block
    groups = lc.groups("C13", seed + 2, quick, modes=("", "exodus")) + [("Trace_RewardBig.tla", "Trace_RewardBig_C13.cfg", big)]
    return verif.run_stateful_check("C13", tier, seed, work, mc_list=mc, groups=groups, key_fn=bigkey,
                                    level="model_checking", assumptions=lc.COMMON_ASSUME, rule=RULE)
