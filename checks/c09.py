"""C09 - the execution head advances only by valid child blocks; engine faults commit nothing."""
from lib import verif
from checks import handover_common as hc

RULE = ("histories in which the scripted engine misbehaves at every call site in turn - forkchoiceUpdated+attributes and getPayload while "
        "proposing, newPayload while checking, newPayload and forkchoiceUpdated at the end of FinalizeBlock - with every fault kind (error, "
        "INVALID, SYNCING, ACCEPTED, missing payload id, timeout), followed by crash, restart and retry; TLC checks per block that the "
        "recorded head changes only to a payload that is a child of the previous head (hash, number + 1), that the beacon root becomes the "
        "finalising block's hash, that the last two engine calls of a finalised block are newPayload(head) and forkchoiceUpdated(head, "
        "safe = finalized = parent), that FinalizeBlock fails exactly on error / INVALID / timeout at the end-of-block calls, that the "
        "state after crash+restart is the committed one, and - through the replica that never sees a fault - that the retried block yields "
        "the same result as the fault-free run")


def run(tier, seed, work):
    quick = tier == "quick"
    mc = [("MC_Handover.tla", "MC_Handover_quick.cfg" if quick else "MC_Handover_thorough.cfg")]
    per, depth, nj = (2, 25, 12) if quick else (12, 40, 14)
    # faults: engine faults at every call site; mutations: proposals this node would refuse but others decided are finalised
    # (NewEthBlock's own checks: parent, number, beacon root, proposer / recipient, blob gas) on a replica that crashes before Commit
    groups = [("Trace_Handover.tla", "Trace_Handover_C09_full.cfg",
               hc.jobs("c09", seed + 8, per, depth, nj, mode="faults") + hc.jobs("c09", seed + 9, per, depth, max(4, nj // 3), mode="mutations"))]
    return verif.run_stateful_check("C09", tier, seed, work, mc_list=mc, groups=groups, key_fn=hc.key,
                                    level="model_checking", assumptions=hc.ASSUME, rule=RULE)
