"""C18 - exported state re-imports to an equivalent, invariant-respecting state."""
import json, os, time
from concurrent.futures import ThreadPoolExecutor
from lib import verif
from checks import locking_common as lc, bridge_common as bc, relayer_common as rc

RULE = ("mixed histories of the whole application (validators created / locked / unlocked / jailed / tombstoned, token changes, grants, "
        "claims, deposits, withdrawals in every status, voted hashes, key rotations, pending / boarding voters); at random heights and at "
        "the end the real ExportAppStateAndValidators output is fed to InitChain of a fresh application: the second export (taken from the "
        "state InitChain produced) must be identical module by module, the initial validator set must equal the exported active set, every "
        "collection of the three stateful modules - derived indices and queues included - must equal what the specifications' Reimport "
        "computes, and the history then CONTINUES ON THE IMPORTED CHAIN under the locking and bridge trace specifications with all their "
        "invariants; TLC also checks exhaustively (bounded block model) that rebuilding the indices is a fixpoint at every block boundary")


def key(ev):
    e = ev.get("ev")
    if e == "export":
        return "export/%s/%s" % (ev.get("phase"), (ev.get("what") or "mismatch").replace(" ", "_"))
    if e == "reimport":
        return "reimport/module-state"
    return lc.key(ev) if e in ("blockmsg", "end", "halt") else "c18/%s" % e


def run(tier, seed, work):
    t0 = time.time()
    quick = tier == "quick"
    binary = verif.build()
    r = verif.model_check("MC_Locking.tla", "MC_Locking_base.cfg", work)
    verif.log("C18: model checked MC_Locking_base.cfg (ReimportFixpoint): %d distinct states" % r.distinct)
    per, depth, nj = (3, 30, 8) if quick else (20, 40, 12)
    outs = []
    crashed = []

    def one(j):
        d = os.path.join(work, "job%d" % j)
        os.makedirs(d, exist_ok=True)
        rc_, so, se = verif.driver(binary, ["reimport", "-n", per, "-depth", depth, "-seed", seed * 1000 + j, "-out", d], work)
        if rc_ != 0:
            if verif.app_crashed(se):      # export / import took the process down (a panic in repository code): the state cannot be exported
                crashed.append((j, d, se))
                return d
            raise verif.Infra("reimport driver failed rc=%d\n%s\n%s" % (rc_, so[-2000:], se[-3000:]))
        return d

    with ThreadPoolExecutor(max_workers=verif.NCPU) as ex:
        outs = list(ex.map(one, range(nj)))
    outs = [d for d in outs if d not in [c[1] for c in crashed]]      # a crashed driver's traces may end in the middle of a line
    groups = [("locking", "Trace_Locking.tla", "Trace_Locking_C18.cfg", lambda l: '"ev":"init"' in l),
              ("bridge", "Trace_Bridge.tla", "Trace_Bridge_C18.cfg", lambda l: '"ev":"init"' in l),
              ("relayer", "Trace_Relayer.tla", "Trace_Relayer_C18.cfg", lambda l: '"ev":"init"' in l),
              ("export", "Trace_Export.tla", "Trace_Export.cfg", None)]
    rc_all, evs = 0, []
    total_events = cycles = 0
    samples = []
    for name, spec, cfg, boundary in groups:
        path = verif.concat([os.path.join(d, name + ".ndjson") for d in outs], os.path.join(work, name + ".ndjson"))
        gw = os.path.join(work, "g_" + name)
        os.makedirs(gw, exist_ok=True)
        rc_ = verif.finish_trace_check("C18", tier, seed, gw, path, (spec, cfg), key, "model_checking", [], RULE,
                                       states=r.distinct, transitions=r.generated, t0=t0, boundary=boundary)
        ev = json.load(open(os.path.join(verif.EVIDENCE, "C18.json")))
        total_events += ev["coverage"]["events_validated"]
        samples += ev["coverage"]["samples"][:1]
        rc_all = max(rc_all, rc_)
        evs.append((name, ev["coverage"]["events_validated"], ev.get("violations", 0)))
        if name == "export":
            cycles = sum(1 for l in open(path) if '"phase":"import"' in l)
    for j, d, se in crashed:
        rd = verif.save_replay("C18", seed, None, extra_files=[os.path.join(d, n + ".ndjson") for n in ("export", "locking", "bridge", "relayer")])
        with open(os.path.join(rd, "crash.txt"), "w") as f:
            f.write(se[-20000:])
        print("VIOLATION property=C18 replay=%s" % rd)
        print("  exporting / importing a reachable state took the process down (unrecovered panic in repository code); last lines:\n" + se[-1200:])
        rc_all = verif.EXIT_VIOLATION
        evs.append(("crash", 0, 1))
    cov = dict(states=r.distinct, transitions=r.generated, traces_validated_against_impl=cycles, events_validated=total_events,
               evaluations=total_events, distinct_nontrivial=cycles, samples=samples, rule=RULE + "; distinct_nontrivial = export/import cycles performed",
               per_module=[dict(module=n, events=e, violations=v) for n, e, v in evs], exhaustive=False)
    verif.write_evidence("C18", tier, seed, "model_checking", cov,
                         lc.COMMON_ASSUME + ["CometBFT's own state (pending validator updates of the last two blocks) is not part of the application export",
                                             "query answers are compared through the projections of the module collections that back them"],
                         time.time() - t0, violations=sum(v for _, _, v in evs))
    return rc_all
