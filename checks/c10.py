"""C10 - only relayer-proposer bridge/relayer messages and the block message can run."""
import os
from lib import verif


def key(ev):
    if ev.get("ev") == "case":
        return "ante/%s/%s/%s/impl-admitted=%s" % (ev.get("mode"), "+".join(ev.get("msgs", [])), ev.get("signer"), ev.get("admitted"))
    return "ante/%s" % ev.get("ev")


def run(tier, seed, work):
    from checks import relayer_common as rc
    quick = tier == "quick"
    cfg = "MC_Ante_quick.cfg" if quick else "MC_Ante_thorough.cfg"
    table = [("c10table", ["ante", "-cases", os.path.join(work, "cases.ndjson"), "-seed", seed])]
    # dynamic part of the rule ("signed by the CURRENT relayer proposer"): relayer histories with elections, joins and removals
    # (also of the proposer itself) in which relayer transactions signed by members and non-members are offered to CheckTx
    # at every committed state
    per, depth, nj = (3, 30, 8) if quick else (25, 40, 12)
    hist = rc.jobs(seed + 50, per, depth, nj, 3, 2, "c10probe")
    groups = [("Trace_Ante.tla", "Trace_Ante.cfg", table), ("Trace_Relayer.tla", "Trace_Relayer_C10.cfg", hist)]
    return verif.run_stateful_check(
        "C10", tier, seed, work, mc_list=[("MC_Ante.tla", cfg)], groups=groups,
        key_fn=lambda ev: "probe/signer=%s/admitted=%s" % (ev.get("signer"), ev.get("admitted")) if ev.get("ev") == "probe" else key(ev),
        level="model_checking", extra_cov=dict(exhaustive=True, exhaustive_part="the admission table of MC_Ante (group 1); the probe histories (group 2) are random"),
        assumptions=["message types are taken from the application's interface registry at run time and classified by type URL; a registered type "
                     "the harness cannot classify is reported (the `types` event must show 0 unclassified)",
                     "admission = the ante chain let the transaction through (result code 0, or a failure inside message execution)",
                     "re-check and simulation do not verify signatures (cosmos-sdk design): re-check only ever sees transactions that passed a check",
                     "simulation of the block message is skipped (its handler needs in-block consensus information and panics, recovered by baseapp)"],
        rule="TLC enumerates the admission table: 6 execution modes x 14 message patterns (single messages of each class and multi-message "
             "combinations) x 4 signer classes x 10 envelope deviations (memo, second signer, timeout past/now/future, bad signature, bad "
             "sequence, combinations) - the thorough tier adds the full product for single messages; every case is a real signed transaction pushed "
             "through CheckTx (new / recheck), Simulate, PrepareProposalVerifyTx, ProcessProposalVerifyTx or FinalizeBlock of the real app; "
             "finalised blocks whose case transactions were all refused must leave the app hash equal to a replica's that executed the block "
             "without them; plus relayer histories (elections, joins, removals incl. the proposer's) with CheckTx probes signed by members and "
             "non-members at every committed state: admitted iff signed by the current proposer")
