import os, re
from lib import verif


def jobs(tag, seed, per_job, depth, njobs, mode=""):
    out = []
    for j in range(njobs):
        a = ["handover", "-n", per_job, "-depth", depth, "-seed", seed * 1000 + j]
        if mode:
            a += ["-mode", mode]
        out.append(("%s_%s_%d" % (tag, mode or "mixed", j), a))
    return out


def key(ev):
    e = ev.get("ev")
    if e == "process":
        return "process/%s/engine=%s/impl-accept=%s" % (ev.get("mut"), ev.get("p", {}).get("engine"), ev.get("accept"))
    if e == "prepare":
        return "prepare/%s/impl-ok=%s" % (ev.get("fault"), ev.get("ok"))
    if e == "finalize":
        return "finalize/np=%s/fcu=%s/err=%s/msgOk=%s" % (ev.get("endNp"), ev.get("endFcu"), ev.get("err"), ev.get("msgOk"))
    if e == "exec":
        return "exec/nondeterminism"
    return "handover/%s" % e


ASSUME = ["the engine is the scripted stand-in for goat-geth: well-behaved means it builds the child of the announced head with the system "
          "transactions it was given first and validates payloads by recomputing an ideal block hash",
          "consensus block hashes are a deterministic function of (chain id, height, round) in the harness",
          "wall-clock time and crypto/rand are only varied, not controlled; they are confined to proposal building / checking",
          "crashes are placed at ABCI boundaries and engine calls; crash points inside Commit (IAVL flush) are the dependency's"]
