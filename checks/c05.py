"""C05 - withdrawals reach exactly one terminal outcome, paid within the user's terms."""
from lib import verif
from checks import bridge_common as bc

RULE = ("random histories interleaving execution-layer withdraw / fee-update / cancel requests (addresses of 5 standard kinds, P2PK, garbage, "
        "4 networks) with relayer process / replace / finalise / approve-cancellation messages over overlapping id sets: real Bitcoin "
        "transactions paying the decoded scripts, values below and above the request, fees on both sides of the user's cap, change outputs to "
        "the current / an older key, extra outputs, duplicate and non-pending ids, fee bumps with lower fee or unchanged tx, finalisation of "
        "earlier RBF candidates, wrong pid / header / proof / coinbase index; the decoded paid / cancel system transactions are compared")


def run(tier, seed, work):
    quick = tier == "quick"
    mc = [("MC_Bridge.tla", "MC_Bridge_withdrawals.cfg" if quick else "MC_Bridge_withdrawals_thorough.cfg")]
    per, depth, nj = (5, 50, 14) if quick else (25, 60, 14)
    # "told paid once or refund once for an id, never twice" spans restarts from an exported state
    rj = [("c05reimp_%d" % j, ["reimport", "-n", 3 if quick else 12, "-depth", 30, "-seed", seed * 1000 + 360 + j, "-mode", "bridge"]) for j in range(4 if quick else 8)]
    groups = [("Trace_Bridge.tla", "Trace_Bridge_C05.cfg", bc.jobs("c05", seed + 1, per, depth, nj) + bc.jobs("c05burst", seed + 4, max(2, per // 2), depth, 4, mode="burst")),
              ("Trace_Bridge.tla", "Trace_Bridge_C05.cfg", rj)]
    return verif.run_stateful_check("C05", tier, seed, work, mc_list=mc, groups=groups, key_fn=bc.key,
                                    level="model_checking", assumptions=bc.ASSUME, rule=RULE)
