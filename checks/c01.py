"""C01 - voted relayer proposals need a genuine two-thirds quorum."""
import os
from lib import verif


def key(ev):
    if ev.get("ev") != "vote":
        return "relayer/%s" % ev.get("ev")
    return "vote/%s/impl-ok=%s" % (ev.get("kind"), ev.get("ok"))


def run(tier, seed, work):
    from checks import relayer_common as rc
    quick = tier == "quick"
    cfg = "MC_Voted_quick.cfg" if quick else "MC_Voted_thorough.cfg"
    inst = 1 if quick else 2
    table = [("c01table", ["voted", "-cases", os.path.join(work, "cases.ndjson"), "-inst", inst, "-seed", seed])]
    # dynamic membership: histories in which voters join through MsgNewVoter (some of them holding the SAME vote key as another
    # member), leave and are elected; every vote verdict is compared with QuorumOk
    per, depth, nj = (3, 30, 10) if quick else (30, 40, 12)
    hist = rc.jobs(seed + 40, per, depth, nj, 3, 2, "c01hist")
    groups = [("Trace_Relayer.tla", "Trace_Relayer_C01.cfg", table), ("Trace_Relayer.tla", "Trace_Relayer_C01_hist.cfg", hist)]
    proofs = [verif.prove("Proofs_RelayerArith", work)]   # TLAPS: the threshold is ceil(2(n+1)/3), within the group, and two quorums overlap in a third - for every group size
    return verif.run_stateful_check(
        "C01", tier, seed, work, mc_list=[("MC_Voted.tla", cfg)], groups=groups, key_fn=lambda ev: key(ev) if ev.get("ev") == "vote" else rc.key(ev),
        level="model_checking", extra_cov=dict(unbounded_lemmas=proofs, exhaustive=True, exhaustive_part="the case table of MC_Voted (group 1); the histories (group 2) are random"),
        assumptions=["ideal BLS: an aggregate verifies under a bag of keys iff exactly those key holders signed exactly that sign-doc "
                     "(rogue-key resistance rests on the proof of possession checked under C16)",
                     "group membership is static inside the case table; the random histories add dynamic membership (joins by MsgNewVoter, "
                     "also of identities sharing a vote key, removals, elections)"],
        rule="TLC enumerates, for every group size n in 0..N (N=3 quick, 5 thorough): every bitmap over positions 0..n+1 (two beyond "
             "the voter list, mapped to real positions n, n+1, 63+n, 64, 127, 129, 200, 255) x every subset of {outsider, proposer, "
             "voters} that really signed, and every genuine quorum x 16 single-field corruptions x 3 action kinds; each case is a real "
             "signed transaction with a real BLS aggregate, executed by FinalizeBlock of the real app; plus random relayer histories with "
             "joining / leaving voters, shared vote keys, full, minimal and one-short signer sets; distinct = distinct events")
