"""C01 - voted relayer proposals need a genuine two-thirds quorum."""
import os
from lib import verif


def key(ev):
    if ev.get("ev") != "vote":
        return "relayer/%s" % ev.get("ev")
    return "vote/%s/impl-ok=%s" % (ev.get("kind"), ev.get("ok"))


def run(tier, seed, work):
    cfg = "MC_Voted_quick.cfg" if tier == "quick" else "MC_Voted_thorough.cfg"
    inst = 1 if tier == "quick" else 2
    return verif.run_table_check(
        "C01", tier, seed, work,
        mc=("MC_Voted.tla", cfg), trace=("Trace_Relayer.tla", "Trace_Relayer_C01.cfg"),
        driver_args=["voted", "-cases", os.path.join(work, "cases.ndjson"), "-inst", inst],
        key_fn=key, level="model_checking",
        boundary=lambda ln: '"ev":"init"' in ln,
        assumptions=["ideal BLS: an aggregate verifies under a bag of keys iff exactly those key holders signed exactly that sign-doc "
                     "(rogue-key resistance rests on the proof of possession checked under C16)",
                     "group membership is static inside this check; dynamic membership feeds the same Voted action in C02/C16"],
        rule="TLC enumerates, for every group size n in 0..N (N=3 quick, 5 thorough): every bitmap over positions 0..n+1 (two beyond "
             "the voter list, mapped to real positions n, n+1, 63+n, 64, 127, 129, 200, 255) x every subset of {outsider, proposer, "
             "voters} that really signed, and every genuine quorum x 16 single-field corruptions x 3 action kinds; each case is a real "
             "signed transaction with a real BLS aggregate, executed by FinalizeBlock of the real app; distinct = distinct events")
