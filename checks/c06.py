"""C06 - consensus-to-execution hand-over is exactly-once, ordered and gap-free."""
from lib import verif
from checks import handover_common as hc, locking_common as lc

RULE = ("whole-application histories through the real ABCI surface (real PrepareProposal / ProcessProposal / FinalizeBlock / Commit, real "
        "mempool): queue-filling events of every kind (voted hashes, deposits, paid and refunded withdrawals, claimed rewards, matured "
        "unlocks, with bursts beyond the per-block caps), proposals with added / removed / reordered system transactions or a wrong count "
        "byte offered to a replica, rounds prepared and processed but abandoned, engine faults, crashes between FinalizeBlock and Commit and "
        "restarts; per finalised block TLC compares the decoded system transactions with the due prefix of the committed queues, the nonces, "
        "and checks that the committed queues only grow at the tail; nothing is handed over twice")


def run(tier, seed, work):
    quick = tier == "quick"
    mc = [("MC_Handover.tla", "MC_Handover_quick.cfg" if quick else "MC_Handover_thorough.cfg"),
          # liveness ("never dropped"): under fair scheduling of good blocks every enqueued item is eventually handed over
          ("MC_HandoverLive.tla", "MC_HandoverLive_quick.cfg" if quick else "MC_HandoverLive_thorough.cfg")]
    per, depth, nj = (3, 25, 6) if quick else (12, 40, 8)
    js = hc.jobs("c06", seed, per, depth, nj) + hc.jobs("c06", seed + 3, per, depth, nj, mode="burst") + hc.jobs("c06", seed + 5, per, depth, max(2, nj // 2), mode="mutations")
    # "never dropped" spans restarts from an exported state: the hand-over queues and the block-hash cursor must survive export / import
    rj = [("c06reimp_%d" % j, ["reimport", "-n", 2 if quick else 12, "-depth", 30, "-seed", seed * 1000 + 340 + j, "-mode", "bridge"]) for j in range(4 if quick else 8)]
    from checks import bridge_common as bc
    rj += bc.jobs("c06brburst", seed + 9, 3 if quick else 15, 40, 4 if quick else 8, mode="burst")   # bridge-side backlogs beyond every per-block cap
    groups = [("Trace_Handover.tla", "Trace_Handover_C06.cfg", js), ("Trace_Bridge.tla", "Trace_Bridge_C06.cfg", rj)]
    # the locking module's side: every unlock request that succeeds is scheduled (never overwriting what earlier blocks scheduled), every
    # claim is queued, what is due is what the specification says is due - the slice `queues` of the locking histories
    for pr in (1, 2):
        groups.append(("Trace_Locking.tla", "Trace_Locking_C06_pr%d.cfg" % pr,
                       lc.jobs("c06lk", seed + 7, 3 if quick else 20, 30, 3 if quick else 8, pr) + lc.jobs("c06lkburst", seed + 8, 3 if quick else 20, 30, 2 if quick else 4, pr, "burst")))
    # ... and it survives export / import: unlocks scheduled for several instants, claims waiting, the nonce
    groups.append(("Trace_Locking.tla", "Trace_Locking_C06_pr1.cfg",
                   [("c06lkreimp_%d" % j, ["reimport", "-n", 3 if quick else 12, "-depth", 30, "-seed", seed * 1000 + 380 + j, "-mode", "locking"]) for j in range(4 if quick else 8)]))
    return verif.run_stateful_check("C06", tier, seed, work, mc_list=mc, groups=groups, key_fn=lambda ev: hc.key(ev) if ev.get('ev') in ('process', 'prepare', 'finalize', 'exec') else 'c06/%s' % ev.get('ev'),
                                    level="model_checking", assumptions=hc.ASSUME, rule=RULE)
