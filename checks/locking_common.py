from lib import verif


def jobs(tag, seed, per_job, depth, njobs, pr, mode=""):
    out = []
    for j in range(njobs):
        a = ["locking", "-n", per_job, "-depth", depth, "-seed", seed * 1000 + j, "-pr", pr]
        if mode:
            a += ["-mode", mode]
        out.append(("%s_pr%d_%d" % (tag, pr, j), a))
    return out


def key(ev):
    e = ev.get("ev")
    if e == "blockmsg":
        r = ev.get("r", {})
        kinds = "+".join(k for k in ("grants", "weights", "thresholds", "creates", "locks", "unlocks", "claims") if r.get(k))
        return "blockmsg/%s/impl-ok=%s" % (kinds or "gas-only", ev.get("ok"))
    if e == "end":
        if not ev.get("cometOk") and "empty set" in (ev.get("cometErr") or ""):
            return "end/comet-refuses-empty-validator-set"
        return "end/cometOk=%s" % ev.get("cometOk")
    if e == "halt":
        return "halt/%s" % (ev.get("err", "")[:40].replace(" ", "_"))
    return "locking/%s" % e


def groups(prop, seed, quick, modes=("",)):
    per, depth, nj = (3, 30, 8) if quick else (25, 40, 8)
    g = []
    for pr in (1, 2):
        js = []
        for mi, mode in enumerate(modes):
            js += jobs("%s%s" % (prop.lower(), mode), seed + 13 * mi, per, depth, nj if len(modes) == 1 else max(2, nj // len(modes)), pr, mode)
        g.append(("Trace_Locking.tla", "Trace_Locking_%s_pr%d.cfg" % (prop, pr), js))
    # (45 blocks: long enough for the emission to halve to nothing, so that late exports see gas-only rewards and emptied validators)
    # every locking property spans restarts from an exported state: whole-application histories with export / import cycles, continued on
    # the imported chain, validated with the property's own slice (state lost, reset or invented by the import is reported under the
    # property it breaks, not only under C18)
    g.append(("Trace_Locking.tla", "Trace_Locking_%s_pr1.cfg" % prop,
              [("%sreimp_%d" % (prop.lower(), j), ["reimport", "-n", 3 if quick else 12, "-depth", 45, "-seed", seed * 1000 + 300 + j, "-mode", "locking"]) for j in range(6 if quick else 8)]))
    return g


COMMON_ASSUME = ["amounts are small integers with PowerReduction 1 or 2, so every truncation is the same function in model and code; "
                 "magnitudes near 2^63 / 1e18 are outside this check",
                 "the bedrock validator 1 is never unlocked, absent or accused, so the validator set never becomes empty (CometBFT refuses "
                 "an update that empties the set; that situation is excluded, not checked)"]
