"""C14 - downtime jails and slashes once; double-signing tombstones for good."""
from lib import verif
from checks import locking_common as lc

RULE = ("random histories with window 3 / max-missed 2 / jail 3 ticks, 40 % absences, evidence of known and unknown kinds at ages on both "
        "sides of both limits, followed by lock/unlock/weight requests aimed at punished validators; per block TLC compares statuses, jail "
        "times, window counters and slashed totals and evaluates that punished validators have no power, ranking entry or set membership")


def run(tier, seed, work):
    quick = tier == "quick"
    mc = [("MC_Locking.tla", "MC_Locking_base.cfg" if quick else "MC_Locking_C14_thorough.cfg")]
    return verif.run_stateful_check("C14", tier, seed, work, mc_list=mc, groups=lc.groups("C14", seed + 3, quick), key_fn=lc.key,
                                    level="model_checking", assumptions=lc.COMMON_ASSUME, rule=RULE)
