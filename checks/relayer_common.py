import os
from lib import verif

VARIANTS = [("p3t2", 3, 2, "Trace_Relayer_rand.cfg"), ("p3t0", 3, 0, "Trace_Relayer_p3t0.cfg"), ("p2t5", 2, 5, "Trace_Relayer_p2t5.cfg"),
            # electing period well above the accept timeout: the window in which a proposer may still accept implicitly after the deadline block
            ("p5t2", 5, 2, "Trace_Relayer_p5t2.cfg")]


def jobs(seed, per_job, depth, njobs, period, timeout, tag):
    return [("%s_%d" % (tag, j), ["relayer", "-n", per_job, "-depth", depth, "-seed", seed * 1000 + j,
                                  "-period", period, "-accept-timeout", timeout]) for j in range(njobs)]


def key(ev):
    e = ev.get("ev")
    if e == "vote":
        return "vote/%s/reuse=%s/impl-ok=%s" % (ev.get("kind"), "reuse" in ev, ev.get("ok"))
    if e == "newvoter":
        return "newvoter/flaw=%s/impl-ok=%s" % (ev.get("flaw"), ev.get("ok"))
    if e == "accept":
        return "accept/impl-ok=%s" % ev.get("ok")
    return "relayer/%s" % e
