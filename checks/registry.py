"""Registry of claimed checks: the source MANIFEST.json is generated from (bin/mkmanifest)."""

HOOK_COMMITS = []
NOTES = ("Every verdict comes from TLC validating a trace recorded from the real application against the TLA+ trace "
         "specification; a counterexample on the specification alone, a dead driver or a timeout is exit 2, never a violation.")
NOT_YET = {}

TRUSTED = ("TLC 1.8.0 and the CommunityModules Json module; the Go harness (harness/) that concretises abstract cases and "
           "projects real state; ideal-crypto assumptions named in the evidence file")

CHECKS = {
    "C04": dict(
        level="model_checking",
        technique="TLA+ spec (Merkle.tla) + TLC exhaustive case table + replay of every case into VerifyMerkelProof + TLC trace validation; plus TLC trace validation (Bridge.tla verdicts) of deposit / finalisation histories in which only proof-related inputs vary",
        text="TLC enumerates every tree/leaf/position/path-mutation case within the bounds and checks the design theorems "
             "(completeness, position binding, coinbase only at 0, malformed rejected); every case is then executed on the real "
             "function with random concrete hashes and the verdicts are validated against the specification by TLC. The second observation point (acceptance of deposits and withdrawal finalisations that rely on the verification): bridge histories with aliased positions, mutated paths, wrong headers, one-transaction blocks (empty path) and coinbase outputs at maturity, every verdict fixed by Bridge.tla.",
        note=TRUSTED + "; hash collisions excluded by assumption."),
    "C01": dict(
        level="model_checking",
        technique="TLA+ spec (Relayer.tla QuorumOk) + TLC exhaustive case table + replay as real BLS-signed transactions into the real app + TLC trace validation of the table and of random dynamic-membership histories (joins, removals, elections, shared vote keys) + TLAPS lemmas on the quorum threshold (unbounded)",
        text="TLC enumerates every bitmap x signer-subset x corruption case for groups of 0..N voters and checks the quorum theorems; "
             "every case is executed as a real transaction (real BLS aggregate over the real sign-doc) by FinalizeBlock of the "
             "unmodified application, and TLC validates the per-transaction verdicts and the full projected relayer state (plus a "
             "digest of the bridge store for 'changes no state at all') against the specification; random histories in which voters join by MsgNewVoter "
             "(some holding the same vote key as a founding member), leave and are elected are validated vote by vote against the same QuorumOk.",
        note=TRUSTED + "; BLS soundness assumed."),
    "C02": dict(
        level="model_checking",
        technique="TLA+ spec (Relayer.tla) + TLC exhaustive bounded model with an adversary re-submitting every issued vote + TLC trace validation of random real-app histories + export/import cycles validated with the slice of this property",
        text="MC_Relayer explores every interleaving (within bounds) of genuine, withheld and re-submitted votes with elections and "
             "membership changes and checks that no vote id is accepted twice, the sequence steps by exactly one per acceptance and "
             "rejected steps change nothing; random histories of the real application (with immediate and late re-submission under same "
             "and foreign contexts) are validated event by event against the same actions.",
        note=TRUSTED + "; BLS soundness assumed."),
    "C16": dict(
        level="model_checking",
        technique="TLA+ spec (Relayer.tla) + TLC exhaustive bounded model of boarding/elections + TLC trace validation of random real-app histories under three parameter settings + export/import cycles validated with the slice of this property",
        text="MC_Relayer checks group/queue well-formedness, never-halting EndBlocker, join-only-by-proof and election timeliness as "
             "invariants and action properties over all interleavings within bounds; real histories with real ECDSA/BLS proofs (valid, "
             "forged, replayed), execution-layer add/remove lists and block times around both deadlines are validated step by step.",
        note=TRUSTED + "; proof-of-possession soundness assumed."),
    "C11": dict(
        level="model_checking",
        technique='TLA+ spec (Locking.tla) + TLC exhaustive bounded block model + TLC trace validation of random real-app histories with conservation history variables + TLAPS lemmas on slash / unlock amounts (unbounded) + export/import cycles',
        text='MC_Locking explores every 4-block history over a small request universe with absences and evidence and checks locked = held + slashed + released, non-negativity and unlock <= asked; random histories of the real application are validated block by block (holdings, slashed, locking index, unlock queues) and the conservation law is evaluated on every observed state.',
        note=TRUSTED + "; exact for small integer amounts (stated in the evidence)."),
    "C12": dict(
        level="model_checking",
        technique='TLA+ spec (Locking.tla reward pool, distribution, claim) + TLC exhaustive bounded model + TLC trace validation of random real-app histories + TLAPS lemmas on the emission step and share bound (unbounded) + export/import cycles',
        text="The emission schedule, the share computation (transcribed including the 18-digit rounding effect) and claims are specified; TLC checks granted + fees = pools + accrued + claimed exhaustively within bounds and on every observed state of real histories whose pools, accruals and queued payouts must equal the specification's.",
        note=TRUSTED + "; exact for small integer amounts (stated in the evidence)."),
    "C13": dict(
        level="model_checking",
        technique='TLA+ spec (Locking.tla ranking/top-K/EndBlock, CometBFT acceptance rules) + TLC exhaustive bounded model + TLC trace validation with a real cmttypes.ValidatorSet as acceptance oracle + export/import cycles validated with the slice of this property',
        text="EndBlocker is specified as the descending walk over the ranking with the diff against the recorded set; TLC checks top-K, comet = record, ranking/index consistency, never-halting Begin/End and CometBFT acceptance exhaustively within bounds; on real histories the reported update set, ranking, set and statuses must equal the specification's and the real CometBFT validator-set code must accept every update.",
        note=TRUSTED + "; exact for small integer amounts (stated in the evidence)."),
    "C14": dict(
        level="model_checking",
        technique='TLA+ spec (Locking.tla votes/evidence/punish/unjail) + TLC exhaustive bounded model with action properties + TLC trace validation of random real-app histories + export/import cycles validated with the slice of this property',
        text='Downtime accounting, slashing (whole amount when the slice truncates to zero), jailing, un-jailing by lock and tombstoning are specified; TLC checks tombstone-forever, jail-only-from-active and unjail-only-after-jail-and-thresholds as action properties; real histories with absences across window boundaries and evidence of every age are compared status by status, counter by counter.',
        note=TRUSTED + "; exact for small integer amounts (stated in the evidence)."),
    "C15": dict(
        level="model_checking",
        technique='TLA+ spec (Locking.tla unlock queue, maturation, delivery) + TLC exhaustive bounded model + TLC trace validation incl. burst histories beyond the delivery cap + export/import cycles validated with the slice of this property',
        text="Every unlock carries its request time and maturity; TLC checks delivery time >= maturity, delivered-once and the exit rule exhaustively within bounds; on real histories both queues, the nonce and the decoded complete-unlock system transactions of each payload must equal the specification's, including bursts of more than 16 unlocks maturing together.",
        note=TRUSTED + "; exact for small integer amounts (stated in the evidence)."),
    "C03": dict(
        level="model_checking",
        technique='TLA+ spec (Bridge.tla NewDeposits/NewBlockHashes/tax) + TLC exhaustive bounded deposit universe + TLC trace validation of real-app histories over a simulated Bitcoin chain + TLAPS lemmas on the tax arithmetic (unbounded) + export/import cycles',
        text="The deposit checks are specified in the code's order over abstract deposit facts; TLC explores every batch over a small universe of transactions and flaws with hash votes and tax updates and checks credited-once, value = amount + tax, tax < value; real histories with real transactions, headers, Merkle proofs and votes are validated message by message, and the decoded deposit system transactions of every payload must equal the specification's queue.",
        note=TRUSTED + "; hash collisions excluded; votes genuine unless built otherwise."),
    "C05": dict(
        level="model_checking",
        technique='TLA+ spec (Bridge.tla withdrawal state machine) + TLC exhaustive bounded model with action properties + TLC trace validation of real-app histories',
        text="TLC explores every interleaving (within bounds) of withdraw / fee update / cancel requests with process / replace / finalise / approve messages over overlapping id sets and checks the allowed status edges, terminal states absorbing, paid xor refund once per id, and that every accepted batch pays the user's script, at most the amount, within the current fee cap with at most one change output to the current key; real histories with real Bitcoin transactions and SPV proofs are validated step by step including the decoded paid / cancel system transactions.",
        note=TRUSTED + "; hash collisions excluded; votes genuine unless built otherwise."),
    "C17": dict(
        level="model_checking",
        technique="TLA+ spec (Bridge.tla ScriptOk / AddrOk class tables) + TLC + trace validation of real-app histories on 4 networks with addresses generated by the node's own query and by btcd",
        text='The specification fixes which (key, EVM address, version) a generated deposit script must be accepted for and which withdrawal address classes belong to a network; real chains on each network hand out addresses through the real query handler, pay them with real transactions and must credit exactly the generating triple; withdrawal addresses of all kinds and networks must become pending or be refunded per class.',
        note=TRUSTED + "; hash collisions excluded; votes genuine unless built otherwise."),
    "C20": dict(
        level="model_checking",
        technique='TLA+ spec (Bridge.tla ParamWalk/TaxOf) + TLC exhaustive update sequences over boundary values + TLC trace validation of real-app histories + TLAPS lemmas: tax < value, credited amount > 0, tax <= cap (unbounded)',
        text='TLC checks rate < 10000, minimum deposit >= dust and confirmations >= 1 after every sequence of updates over boundary values from boundary initial sets, and that no credited deposit has tax >= value or amount 0; the same boundary values are sent to the real application as execution-layer request lists and the stored parameters and resulting deposit amounts are compared.',
        note=TRUSTED + "; hash collisions excluded; votes genuine unless built otherwise."),
    "C06": dict(
        level="model_checking",
        technique='TLA+ spec (Handover.tla queues/DueList/AfterDelivery) + TLC exhaustive bounded model with failing blocks, abandoned rounds, engine faults and crashes + TLC trace validation of whole-application histories through the real ABCI surface + TLC liveness check (every enqueued item is eventually handed over under fair good blocks) + export/import cycles + the locking and bridge modules\' own queues (slices `queues` of Locking.tla / Bridge.tla histories)',
        text='MC_Handover checks handed-is-prefix-of-enqueued, nothing dropped, no duplicates, nonces = counts, caps and only-commit-changes-state over all interleavings within bounds; real histories (real Prepare/Process/Finalize/Commit, real mempool, over-filled queues, faulty proposals, abandoned rounds, crashes) are validated block by block: decoded system transactions = due prefix, consecutive nonces, committed queues only grow at the tail.',
        note=TRUSTED),
    "C07": dict(
        level="model_checking",
        technique='TLA+ trace spec (Trace_Handover exec events: (previous app hash, block) -> result must be single-valued) + replicas and re-execution of every block of real histories',
        text='Every block is executed on two replicas (which serve different queries and transaction simulations in between) and re-executed after dropping the uncommitted application; TLC rejects any second, different (app hash, codes, gas, update set, engine calls) for the same (state, block); histories deliberately contain order-sensitive failing batches.',
        note=TRUSTED),
    "C08": dict(
        level="model_checking",
        technique='TLA+ spec (Handover.tla ProcessAccepts / BlockMsgChecks) + TLC trace validation of real PrepareProposal outputs and 24 concretely built proposal mutations; Go race detector run of the same driver for the data-race clause',
        text='The acceptance predicate of proposals is specified over observable facts of the proposal and the committed state; real PrepareProposal outputs must be accepted by proposer and replica, stay within 16 transactions and their block message must succeed; every mutation kind is built concretely and must be rejected; the drivers also run under the race detector (a report in repository code is a violation of the race clause).',
        note=TRUSTED),
    "C09": dict(
        level="model_checking",
        technique='TLA+ spec (Handover.tla head/beacon/engine-log rules, EndEngineOk) + TLC exhaustive bounded model + TLC trace validation of fault-injection histories with crash, restart, retry and a fault-free replica',
        text="TLC checks head-advances-by-children-only and only-commit-changes-state in the bounded model; real histories with every fault kind at every engine call site are validated: FinalizeBlock fails exactly on error / INVALID / timeout at the end-of-block calls, nothing of a failed block persists, the engine is told exactly (head, safe = finalized = parent), and the retried block equals the fault-free replica's result.",
        note=TRUSTED),
    "C10": dict(
        level="model_checking",
        technique='TLA+ spec (Ante.tla decision table; Relayer.tla for who the current proposer is) + TLC exhaustive case table + replay of every case as a real signed transaction through every execution mode + TLC trace validation, also of relayer histories with CheckTx probes at every committed state',
        text="The admission table is enumerated completely and the statement of C10 is checked on it; every row is executed against the real application (registered message types enumerated at run time) and the admitted / refused verdict and the 'refused changes nothing' app-hash comparison are validated by TLC.",
        note=TRUSTED),
    "C18": dict(
        level="model_checking",
        technique="TLA+ Reimport operators (Locking.tla, Relayer.tla; Bridge is the identity) + TLC exhaustive fixpoint check on the bounded block model + real export -> InitChain on a fresh application with TLC trace validation of the imported state and of the history continued on the imported chain",
        text="TLC checks at every reachable block boundary of the bounded locking model that rebuilding indices, ranking, set and threshold list "
             "from the records is a fixpoint; real mixed histories are exported at random heights, imported into a fresh application, compared "
             "module by module (second export identical, validators equal, every collection equal to the specification's Reimport) and then "
             "continued on the imported chain under the module trace specifications with all their invariants.",
        note=TRUSTED),
    "C19": dict(
        level="exploration",
        technique="TLA+ reject-leaves-state-unchanged structure of every module action (checked by the module trace specs) + seeded mutation driver at sampled reachable states with TLC validation of outcomes and a write-ahead input journal for process deaths",
        text="Every specification action has explicit reject branches that leave the state unchanged and the trace specifications never explain a "
             "halt; byte- and structure-level malformed inputs of every message type, of the block message and of proposals are explored by seeded "
             "mutators at states sampled along real histories through CheckTx, ProcessProposal and FinalizeBlock; TLC validates that each call "
             "returned, garbage proposals were refused, and failed transactions left the four module stores identical to a reference execution. "
             "This is exploration strength for the byte-level clause (DESIGN.md section 6), not a proof over all inputs.",
        note=TRUSTED),
}
