"""C19 - no input can crash the node or halt block processing; failures change nothing."""
import json, os, re, shutil, time
from concurrent.futures import ThreadPoolExecutor
from lib import verif

RULE = ("at states sampled along real mixed histories: 35 kinds of structurally broken relayer / bridge messages inside validly signed "
        "transactions (missing sub-messages, bitmaps of 1..96 bytes, wrong key / signature / hash / header / txid sizes, too many and zero "
        "items, garbage Bitcoin transactions, ragged proofs), 8 kinds of broken execution-block messages (no payload, missing / lying count "
        "byte, garbage system transactions, empty and random typed request lists of plausible and implausible sizes, missing base fee, wrong "
        "field sizes) as first and as later transaction, byte-level mutants (truncated, extended, bit-flipped, random) of well-formed "
        "transactions, and random proposals, plus membership request lists of every shape (unknown, duplicated, the proposer, everybody) and the "
        "relayer-membership histories of C16 and heavy-load bridge / locking histories with backlogs beyond every per-block cap (a FinalizeBlock failure or a dead node in any of them is a violation); each malformed input goes through CheckTx, ProcessProposal and FinalizeBlock of the real app; distinct = "
        "distinct (entry point, mutation kind, outcome) triples")


def key(ev):
    e = ev.get("ev")
    if e == "input":
        return "input/%s/%s/code=%s" % (ev.get("where"), ev.get("kind"), "0" if ev.get("code") == 0 else "nz")
    if e == "block":
        return "block/failed-transactions-changed-module-state"
    if e == "halt":
        return "halt/%s" % (ev.get("err", "")[:40].replace(" ", "_"))
    return "robust/%s" % e


def run(tier, seed, work):
    t0 = time.time()
    quick = tier == "quick"
    binary = verif.build()
    per, depth, nj = (8, 30, 16) if quick else (40, 40, 16)
    crashed = []

    def one(j):
        path = os.path.join(work, "robust_%d.ndjson" % j)
        rc, so, se = verif.driver(binary, ["robust", "-n", per, "-depth", depth, "-seed", seed * 1000 + j, "-out", path], work)
        if rc != 0:
            if re.search(r"panic:|fatal error:|SIGSEGV|goroutine \d+ \[running\]", se) and "github.com/goatnetwork/goat/" in se:
                crashed.append((j, path, se))          # the application under test died: that is a violation, with the journal as replay
            elif "chain halted" in se or "DRIVER-ERROR" in so + se and "halted" in so + se:
                pass                                   # logged as a `halt` event: the trace validator reports it
            else:
                raise verif.Infra("robust driver failed rc=%d\n%s\n%s" % (rc, so[-2000:], se[-3000:]))
        return path

    with ThreadPoolExecutor(max_workers=verif.NCPU) as ex:
        paths = list(ex.map(one, range(nj)))
    # membership histories (the C16 driver): arbitrary decodable add / remove request lists across blocks and elections
    rel_jobs = [("c19rel_%d" % j, ["relayer", "-n", 3 if quick else 20, "-depth", 30, "-seed", seed * 1000 + 700 + j,
                                   "-period", 3, "-accept-timeout", (2, 0)[j % 2]]) for j in range(4)]
    rel_paths = verif.run_drivers(binary, rel_jobs, work)
    paths += [rel_paths[n] for n, _ in rel_jobs]
    # well-formed but HEAVY input: bridge and locking histories whose backlogs exceed every per-block cap (more than 8 deposits, paid
    # and refunded withdrawals, more than 16 unlocks and claims due at once); a node that dies or a block that cannot be processed
    # under such load is a violation here as well (the verdicts of these histories belong to C03 / C05 / C06 / C11 ...)
    from checks import bridge_common as bc, locking_common as lc
    heavy = bc.jobs("c19brburst", seed + 11, 3 if quick else 15, 40, 8 if quick else 12, mode="burst") + lc.jobs("c19lkburst", seed + 12, 3 if quick else 15, 30, 2 if quick else 4, 1, "burst")
    heavy += lc.jobs("c19lk", seed + 13, 3 if quick else 15, 30, 4 if quick else 8, 1) + lc.jobs("c19lk", seed + 14, 3 if quick else 15, 30, 4 if quick else 8, 2)   # ordinary locking histories: any halt in them counts
    try:
        hp = verif.run_drivers(binary, heavy, work)
        paths += [hp[n] for n, _ in heavy]
    except verif.AppCrash as ac:
        for name, path, err in ac.crashes:
            crashed.append((name, path, err))
    trace = verif.concat([p for p in paths if os.path.exists(p)], os.path.join(work, "robust.ndjson"))
    rc = verif.finish_trace_check("C19", tier, seed, work, trace, ("Trace_Robust.tla", "Trace_Robust.cfg"), key, "exploration",
                                  [], RULE, states=0, transitions=0, t0=t0, boundary=lambda l: '"ev":"init"' in l, ntraces=sum(1 for l in open(trace) if '"ev":"init"' in l),
                                  nontrivial_fn=None)
    evp = os.path.join(verif.EVIDENCE, "C19.json")
    ev = json.load(open(evp))
    triples = set()
    for l in open(trace):
        try:
            e = json.loads(l)
        except ValueError:
            continue
        if e.get("ev") == "input":
            triples.add((e.get("where"), e.get("kind"), e.get("code") == 0))
    ev["coverage"]["distinct_nontrivial"] = len(triples)
    ev["coverage"].pop("states", None)
    ev["coverage"].pop("transitions", None)
    ev["coverage"]["exhaustive"] = False
    ev["coverage"]["node_crashes"] = len(crashed)
    ev["assumptions"] = ["byte-level robustness is explored by seeded mutators per case class, not proved for all inputs (DESIGN.md section 6)",
                         "'changes nothing' is judged on the relayer, bitcoin, locking and goat stores; a transaction whose message fails after passing "
                         "admission still consumes its account sequence (cosmos-sdk replay protection)",
                         "panics inside transaction execution are recovered by baseapp (observed, counted as rejections); a panic that escapes kills the "
                         "driver process and is reported from the input journal"]
    for j, path, se in crashed:
        d = verif.save_replay("C19", seed, None, extra_files=[p for p in (path, path + ".journal") if os.path.exists(p)])
        with open(os.path.join(d, "crash.txt"), "w") as f:
            f.write(se[-20000:])
        print("VIOLATION property=C19 replay=%s" % d)
        print("  the node process died (robust driver: the last journal entry is the malformed input; heavy-load histories: the trace so far):\n" + se[-1500:])
        ev["violations"] = ev.get("violations", 0) + 1
        rc = verif.EXIT_VIOLATION
    json.dump(ev, open(evp, "w"), indent=1, sort_keys=True)
    return rc
