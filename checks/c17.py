"""C17 - deposit addresses handed out are exactly what deposit checking accepts; withdrawal addresses decode exactly."""
from lib import verif
from checks import bridge_common as bc

RULE = ("for each of the 4 configured networks: chains whose relayer key is ECDSA or Schnorr (and rotated keys of both types); for random EVM "
        "addresses the node's own DepositAddress query (v0, and v1 where defined) is decoded with btcd, paid by a real transaction and "
        "submitted claiming the generating (key, EVM address, version) - must be credited - and claiming another EVM address / another "
        "registered or unregistered key / the other version - must be refused; withdrawal addresses of every standard kind, P2PK and garbage on "
        "all 4 networks must become pending exactly when their encoding belongs to the configured network, and the script the node later "
        "accepts in a processing transaction must be btcd's PayToAddrScript of that address")


def run(tier, seed, work):
    quick = tier == "quick"
    mc = [("MC_Bridge.tla", "MC_Bridge_deposits.cfg")]
    per, depth, nj = (4, 40, 4) if quick else (12, 50, 4)
    groups = []
    for net in ("regtest", "mainnet", "testnet3", "signet"):
        groups.append(("Trace_Bridge.tla", "Trace_Bridge_C17_%s.cfg" % net, bc.jobs("c17", seed + 3, per, depth, nj, mode="addr", network=net)))
    return verif.run_stateful_check("C17", tier, seed, work, mc_list=mc, groups=groups, key_fn=bc.key,
                                    level="model_checking",
                                    assumptions=bc.ASSUME + ["the specification fixes the case structure (which (key type, version, network, address kind) combinations "
                                                             "must be accepted / refused); fidelity of the bech32 / base58 / taproot-tweak encodings is explored by "
                                                             "sampling concrete keys and addresses per class against btcd as reference, not proved"],
                                    rule=RULE)
