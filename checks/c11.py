"""C11 - locked funds are conserved: locked = held + slashed + released."""
from lib import verif
from checks import locking_common as lc

RULE = ("random histories of the real app over 5 validators and 4 tokens (one never registered): create / lock batches (several entries per "
        "validator, zero amounts, unknown validators and tokens) / unlock (over-asking, dust, exits) / weight and threshold changes / "
        "absences across signing windows / evidence of both kinds and ages; per block TLC compares holdings, slashed totals, the locking "
        "index and both unlock queues with the specification and evaluates locked = held + slashed + released per token")


def run(tier, seed, work):
    quick = tier == "quick"
    mc = [("MC_Locking.tla", "MC_Locking_base.cfg" if quick else "MC_Locking_C11_thorough.cfg")]
    proofs = [verif.prove("Proofs_LockingArith", work)]   # TLAPS: a slash takes between 1 unit and the whole holding; an unlock releases at most min(asked, held)
    return verif.run_stateful_check("C11", tier, seed, work, mc_list=mc, groups=lc.groups("C11", seed, quick, modes=("", "burst")), key_fn=lc.key,
                                    level="model_checking", extra_cov=dict(unbounded_lemmas=proofs), assumptions=lc.COMMON_ASSUME, rule=RULE)
