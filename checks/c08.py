"""C08 - honest proposals are always accepted; accepted proposals are well-formed; no data races."""
import os, re, time
from lib import verif
from checks import handover_common as hc

RULE = ("for random reachable states and mempool contents the real PrepareProposal output is offered to the proposer itself and to a replica "
        "(must be accepted, <= 16 transactions, and its block message must succeed when finalised - the request lists of these histories "
        "are all acceptable to the modules); 24 mutation kinds of the honest proposal (reordered / duplicated / dropped / later block "
        "message, wrong parent, number, beacon root, proposer, recipient, system transactions added / removed / reordered, count byte, "
        "undecodable requests, 0 or 2 gas requests, future timestamp, engine INVALID / SYNCING, 17 transactions, none, garbage transaction, "
        "wrong timeout height, bad signature) are concretely built (payload hash recomputed so that only the mutated aspect is wrong) and "
        "must be rejected; the same driver runs under the Go race detector")


def race_run(prop, seed, work, quick):
    """The data-race clause: run the proposal drivers under the race detector. A detector report whose stack is in the
    repository's code is a violation (the statement includes the clause); the detector itself is not a TLA+ notion."""
    binary = verif.build(race=True)
    out = os.path.join(work, "race_trace.ndjson")
    n, depth = (2, 10) if quick else (6, 25)
    rc, so, se = verif.driver(binary, ["handover", "-n", n, "-depth", depth, "-seed", seed + 77, "-mode", "mutations", "-out", out], work, timeout=3000)
    races = [m for m in re.split(r"={10,}", se) if "DATA RACE" in m and "github.com/goatnetwork/goat/" in m]
    return races, se


def run(tier, seed, work):
    quick = tier == "quick"
    mc = [("MC_Handover.tla", "MC_Handover_quick.cfg")]
    per, depth, nj = (2, 20, 10) if quick else (10, 40, 12)
    js = hc.jobs("c08", seed + 4, per, depth, nj, mode="mutations") + hc.jobs("c08", seed + 6, per, depth, max(2, nj // 3))
    groups = [("Trace_Handover.tla", "Trace_Handover_C08.cfg", js)]
    # "whatever the queue backlog, mempool contents or LAST BLOCK were": relayer-membership histories (members leave, the proposer
    # itself is asked to leave, elections, joins) whose every block is the honest proposer's proposal offered to ProcessProposal -
    # a refused one ends the history with a `halt` event, which Trace_Robust explains by no action
    from checks import relayer_common as rc_
    groups.append(("Trace_Robust.tla", "Trace_Robust.cfg", rc_.jobs(seed + 50, 3 if quick else 20, 30, 4 if quick else 8, 3, 2, "c08rel")))
    rc = verif.run_stateful_check("C08", tier, seed, work, mc_list=mc, groups=groups, key_fn=hc.key,
                                  level="model_checking", assumptions=hc.ASSUME, rule=RULE)
    races, se = race_run("C08", seed, work, quick)
    import json
    evp = os.path.join(verif.EVIDENCE, "C08.json")
    ev = json.load(open(evp))
    ev["coverage"]["race_detector"] = dict(runs=1, reports_in_repo_code=len(races))
    if races:
        d = verif.save_replay("C08", seed, None)
        with open(os.path.join(d, "race.txt"), "w") as f:
            f.write("\n==========\n".join(races)[:20000])
        print("VIOLATION property=C08 replay=%s" % d)
        print("  data race reported by the race detector in proposal building/checking:\n" + races[0][:1500])
        ev["violations"] = ev.get("violations", 0) + 1
        rc = verif.EXIT_VIOLATION
    json.dump(ev, open(evp, "w"), indent=1, sort_keys=True)
    return rc
