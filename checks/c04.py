"""C04 - Merkle inclusion proofs are sound and position-binding."""
import os
from lib import verif


def key(ev):
    # stable key of a failing input: mutation kind + whether the position is inside 2^len(path)
    return "merkle/%s/hi%d" % (ev.get("kind"), ev.get("hi", 0))


def run(tier, seed, work):
    rc1 = run_table(tier, seed, work)
    return run_handlers(tier, seed, work, rc1)


def run_handlers(tier, seed, work, rc1):
    """Second observation point of the property: acceptance of deposits / withdrawal finalisations that rely on the verification.
    Bridge histories in which only what the inclusion proof is about varies (positions incl. aliases, genuine / truncated / ragged /
    flipped paths, headers, blocks of one transaction whose path is EMPTY, coinbase outputs at maturity); the verdict of every
    deposit and finalisation message is fixed by Bridge.tla, whose SPV clause is the Merkle specification's relation."""
    import json, time
    from checks import bridge_common as bc
    t0 = time.time()
    quick = tier == "quick"
    evp = os.path.join(verif.EVIDENCE, "C04.json")
    ev1 = json.load(open(evp))
    binary = verif.build()
    jobs = bc.jobs("c04spv", seed + 2, 4 if quick else 20, 50, 8 if quick else 10, mode="spv") + bc.jobs("c04deep", seed + 3, 3 if quick else 8, 40, 4 if quick else 6, mode="deep")
    hw = os.path.join(work, "handlers")
    os.makedirs(hw, exist_ok=True)
    try:
        paths = verif.run_drivers(binary, jobs, hw)
    except verif.AppCrash as ac:
        for name, path, err in ac.crashes:
            d = verif.save_replay("C04", seed, None, extra_files=[p for p in (path,) if os.path.exists(p)], note="driver %s" % name)
            open(os.path.join(d, "crash.txt"), "w").write(err[-30000:])
            print("VIOLATION property=C04 replay=%s" % d)
            print("  the application took the process down (unrecovered panic in repository code); last lines:\n" + err[-1200:])
        ev1["violations"] = ev1.get("violations", 0) + len(ac.crashes)
        json.dump(ev1, open(evp, "w"), indent=1, sort_keys=True)
        return verif.EXIT_VIOLATION
    trace = verif.concat([paths[n] for n, _ in jobs], os.path.join(hw, "handlers.ndjson"))
    n_init = sum(1 for l in open(trace) if '"ev":"init"' in l)
    rc2 = verif.finish_trace_check("C04", tier, seed, hw, trace, ("Trace_Bridge.tla", "Trace_Bridge_C04.cfg"), bc.key, "model_checking", [], "",
                                   states=0, transitions=0, t0=t0, boundary=lambda ln: '"ev":"init"' in ln, ntraces=n_init, selftest=False)
    ev2 = json.load(open(evp))
    c1, c2 = ev1["coverage"], ev2["coverage"]
    c1["handler_histories"] = dict(traces=c2.get("traces_validated_against_impl"), events_validated=c2.get("events_validated"),
                                   cfg="Trace_Bridge_C04.cfg (binds the verdicts of deposit and finalisation messages)", samples=c2.get("samples", [])[:3],
                                   modes=["spv", "deep"])
    c1["events_validated"] = c1.get("events_validated", 0) + c2.get("events_validated", 0)
    c1["traces_validated_against_impl"] = c1.get("traces_validated_against_impl", 0) + c2.get("traces_validated_against_impl", 0)
    c1["known_findings_reported"] = sorted(set(c1.get("known_findings_reported", []) + c2.get("known_findings_reported", [])))
    ev1["violations"] = ev1.get("violations", 0) + ev2.get("violations", 0)
    ev1["wall_s"] = round((ev1.get("wall_s") or 0) + (ev2.get("wall_s") or 0), 1)
    ev1["assumptions"] = ev1.get("assumptions", []) + ["handler histories: every other condition of the deposit / finalisation rules (script, key, value, "
                                                       "maturity, status) is modelled too, so a verdict divergence there is also reported here"]
    json.dump(ev1, open(evp, "w"), indent=1, sort_keys=True)
    return max(rc1, rc2)


def run_table(tier, seed, work):
    cfg = "MC_Merkle_quick.cfg" if tier == "quick" else "MC_Merkle_thorough.cfg"
    inst = 2 if tier == "quick" else 4
    return verif.run_table_check(
        "C04", tier, seed, work,
        mc=("MC_Merkle.tla", cfg), trace=("Trace_Merkle.tla", "Trace_Merkle.cfg"),
        driver_args=["merkle", "-cases", os.path.join(work, "cases.ndjson"), "-inst", inst],
        key_fn=key, level="model_checking",
        assumptions=["ideal hash: double-SHA256 is modelled as an injective pair constructor (second-preimage resistance assumed)",
                     "64-byte-transaction leaf/node ambiguity is outside this property (excluded by the deposit size bound, C03)"],
        rule="TLC enumerates every tree of 1..N leaves (N=6 quick, 9 thorough), every leaf, every claimed position < 2^(depth+2) "
             "(plus the same with a high bit set), 13 path mutation kinds with every argument; each case is instantiated with "
             "fresh random 32-byte leaves and run through the real VerifyMerkelProof; distinct = distinct (case) tuples")
