"""C04 - Merkle inclusion proofs are sound and position-binding."""
import os
from lib import verif


def key(ev):
    # stable key of a failing input: mutation kind + whether the position is inside 2^len(path)
    return "merkle/%s/hi%d" % (ev.get("kind"), ev.get("hi", 0))


def run(tier, seed, work):
    cfg = "MC_Merkle_quick.cfg" if tier == "quick" else "MC_Merkle_thorough.cfg"
    inst = 2 if tier == "quick" else 4
    return verif.run_table_check(
        "C04", tier, seed, work,
        mc=("MC_Merkle.tla", cfg), trace=("Trace_Merkle.tla", "Trace_Merkle.cfg"),
        driver_args=["merkle", "-cases", os.path.join(work, "cases.ndjson"), "-inst", inst],
        key_fn=key, level="model_checking",
        assumptions=["ideal hash: double-SHA256 is modelled as an injective pair constructor (second-preimage resistance assumed)",
                     "64-byte-transaction leaf/node ambiguity is outside this property (excluded by the deposit size bound, C03)"],
        rule="TLC enumerates every tree of 1..N leaves (N=6 quick, 9 thorough), every leaf, every claimed position < 2^(depth+2) "
             "(plus the same with a high bit set), 13 path mutation kinds with every argument; each case is instantiated with "
             "fresh random 32-byte leaves and run through the real VerifyMerkelProof; distinct = distinct (case) tuples")
