"""C07 - the state transition is deterministic across replicas, re-execution and restart."""
from lib import verif
from checks import handover_common as hc

RULE = ("every block of every history is executed on two replicas (separate databases and engines) and, in the determinism histories, "
        "re-executed twice more after dropping the application between FinalizeBlock and Commit and re-opening the database; blocks carry "
        "adversarial request lists (lock batches over 3+ validators with several failing members, unknown tokens and validators) and failing "
        "relayer transactions; TLC keeps the map (previous app hash, block) -> (app hash, per-transaction code and gas, set of validator "
        "updates, engine calls) and rejects a second, different result for the same key")


def run(tier, seed, work):
    quick = tier == "quick"
    mc = [("MC_Handover.tla", "MC_Handover_quick.cfg")]
    per, depth, nj = (2, 25, 10) if quick else (12, 40, 12)
    js = hc.jobs("c07", seed + 1, per, depth, nj, mode="determinism") + hc.jobs("c07", seed + 2, per, depth, max(2, nj // 3))
    groups = [("Trace_Handover.tla", "Trace_Handover_C07.cfg", js)]
    return verif.run_stateful_check("C07", tier, seed, work, mc_list=mc, groups=groups, key_fn=hc.key,
                                    level="model_checking",
                                    assumptions=hc.ASSUME + ["Go re-randomises map iteration order on every range: k re-executions miss a 2-way order dependence with probability 2^-k per block; "
                                                             "hundreds of order-sensitive blocks are executed 4 times each"],
                                    rule=RULE)
