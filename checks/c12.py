"""C12 - rewards are conserved and follow the emission schedule."""
from lib import verif
from checks import locking_common as lc

RULE = ("random histories with grants, gas fees 0..9, claims, validator-set changes; halving interval 5 and initial reward 8 so that several "
        "halvings and the exhaustion of the grant happen inside a history; per block TLC recomputes the emission min(remain, initial/2^k), "
        "the shares (floor(pool*p/P), one less when the 18-digit ratio was rounded down on an exact product) and compares pools, accruals "
        "and queued payouts, and evaluates granted + fees = pools + accrued + claimed")


def bigkey(ev):
    if ev.get("ev") == "block" and "imbalance" in ev and not ev.get("cometOk") and ev.get("extreme"):
        return "large-scale/extreme-token-configuration/comet-refuses/%s" % ev.get("cometClass")
    if ev.get("ev") == "block" and "imbalance" in ev:
        return "large-scale/imbalance=%s/signs=%s,%s,%s,%s/cometOk=%s" % (ev.get("imbalance") != 0, ev.get("goatSign"), ev.get("gasSign"), ev.get("remainSign"), ev.get("accruedSign"), ev.get("cometOk"))
    return lc.key(ev)


def run(tier, seed, work):
    quick = tier == "quick"
    mc = [("MC_Locking.tla", "MC_Locking_C12_quick.cfg" if quick else "MC_Locking_C12_thorough.cfg")]
    big = [("c12_big_%d" % j, ["rewardbig", "-n", 4 if quick else 30, "-depth", 40, "-seed", seed * 1000 + 500 + j]) for j in range(4)]
    groups = lc.groups("C12", seed + 1, quick, modes=("", "burst")) + [("Trace_RewardBig.tla", "Trace_RewardBig_C12.cfg", big)]
    proofs = [verif.prove("Proofs_LockingArith", work)]   # TLAPS: the emission step conserves value and moves min(scheduled, remaining); a share lies within its pool - for every amount
    return verif.run_stateful_check("C12", tier, seed, work, mc_list=mc, groups=groups, key_fn=bigkey,
                                    level="model_checking", extra_cov=dict(unbounded_lemmas=proofs),
                                    assumptions=lc.COMMON_ASSUME + ["small-amount regime: pool x validators far below 1e18, where the code's 18-digit "
                                                                    "rounding cannot distribute more than the pool; the 1e18-magnitude regime is the "
                                                                    "large-scale check (see DESIGN.md)"],
                                    rule=RULE)
