CONSTANTS
  Members = {1,2,3,4,5,6,7,8}
  Period = 3
  AcceptTimeout = 2
  Bind = {"vote", "accepted", "seq", "epoch", "pubkeys", "bridge"}
INIT TInit
NEXT TNext
INVARIANTS SingleUse WellFormed
POSTCONDITION Reached
CHECK_DEADLOCK FALSE
