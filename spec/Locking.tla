------------------------------- MODULE Locking -------------------------------
(***************************************************************************)
(* x/locking: validators, locked funds, voting power, the power ranking and *)
(* the validator set handed to CometBFT, rewards, unlock queues, downtime   *)
(* and double-sign punishment.                                              *)
(*                                                                         *)
(* The whole module state is ONE record (variable lk) so that the block     *)
(* hooks can be written as compositions of state transformers, exactly in   *)
(* the order the code runs them:                                            *)
(*   BeginBlock = Distribute ; Votes ; Evidence                             *)
(*   BlockMsg   = Deliver(pop) ; RewardPool ; Tokens ; Create ; Lock ;      *)
(*                Unlock ; Claim          (all-or-nothing)                  *)
(*   EndBlock   = MatureUnlocks ; top-K walk over the ranking, diff against *)
(*                the recorded set                                          *)
(* A transformer that hits an error branch sets .err; the block message is  *)
(* then discarded as a whole, Begin/End errors halt the chain.              *)
(*                                                                         *)
(* Amounts are the real wei-level integers (drivers use small values and a  *)
(* PowerReduction of 1 or 2), so every truncation is the same function in   *)
(* model and code.                                                          *)
(***************************************************************************)
EXTENDS Integers, Sequences, FiniteSets, TLC, LockingArith

CONSTANTS
  Vals,            \* validator ids 1..N, ordered like their address bytes
  Tokens,          \* token ids 1..T, ordered like their denoms
  PowerReduction,
  UnlockDur, ExitDur, JailDur,
  MaxVals, Window, MaxMissed,
  DSNum, DSDen,    \* double-sign slash fraction
  DTNum, DTDen,    \* downtime slash fraction
  Halving, InitialReward,
  MaxAgeBlocks, MaxAgeTicks,   \* consensus evidence parameters
  MaxRewardTx, MaxUnlockTx     \* per-block delivery caps (16 / 16 in the code)

Statuses == {"Pending", "Active", "Tombstoned", "Downgrade", "Inactive"}

NoVal == [exists |-> FALSE, status |-> "Pending", power |-> 0, locking |-> [t \in Tokens |-> 0],
          reward |-> 0, gasReward |-> 0, offset |-> 0, missed |-> 0, jailedUntil |-> 0]
NoToken == [exists |-> FALSE, weight |-> 0, threshold |-> 0]
Absent == -1

\* state record fields:
\*  val      [Vals -> validator]            Validators
\*  tokens   [Tokens -> token]              Tokens
\*  thr      [Tokens -> Nat]                Threshold.List (0 = not listed)
\*  lockIdx  [Tokens \X Vals -> Int]        Locking index (Absent = no entry)
\*  ranking  SUBSET (Nat \X Vals)           PowerRanking
\*  valSet   [Vals -> Int]                  ValidatorSet (Absent = not a member)
\*  slashed  [Tokens -> Nat]
\*  pool     [goat, gas, remain]
\*  unlockQ  Seq([time, id, token, amount])   pending unlocks in insertion order
\*  q        [rewards: Seq, unlocks: Seq]   EthTxQueue
\*  nonce    Nat
\*  hasAcc   SUBSET Vals                    addresses owning an auth account
\*  err      BOOLEAN

SumOver(S, F(_)) ==
  LET RECURSIVE Go(_)
      Go(T) == IF T = {} THEN 0 ELSE LET x == CHOOSE y \in T : TRUE IN F(x) + Go(T \ {x})
  IN Go(S)

PowerOf(w, amt) == (w * amt) \div PowerReduction

RankAdd(S, v, p)  == [S EXCEPT !.ranking = @ \cup {<<p, v>>}]
RankAddPos(S, v, p) == IF p > 0 THEN RankAdd(S, v, p) ELSE S        \* the repaired rule: no zero-power entries
RankDel(S, v, p)  == [S EXCEPT !.ranking = @ \ {<<p, v>>}]
Fail(S) == [S EXCEPT !.err = TRUE]

AllGTE(locking, thr) == \A t \in Tokens : thr[t] > 0 => locking[t] >= thr[t]
     \* Coins.IsAllGTE: every listed threshold is met (an empty threshold list is met by anything)

(***************************************************************************)
(* Reward pool (first step of the block message).                           *)
(***************************************************************************)
RECURSIVE Pow2(_)
Pow2(k) == IF k = 0 THEN 1 ELSE 2 * Pow2(k - 1)

BlockReward(h) == LET n == h \div Halving IN IF n >= 30 THEN 0 ELSE InitialReward \div Pow2(n)

SeqSum(s) == LET RECURSIVE Go(_)
                 Go(i) == IF i > Len(s) THEN 0 ELSE s[i] + Go(i + 1)
             IN Go(1)

UpdateRewardPool(S, gas, grants, h) ==
  IF Len(gas) # 1 THEN Fail(S)
  ELSE LET remain1 == S.pool.remain + SeqSum(grants)
           r == EmissionMove(BlockReward(h), remain1)
       IN [S EXCEPT !.pool = [goat |-> S.pool.goat + r, gas |-> S.pool.gas + (IF gas[1] > 0 THEN gas[1] ELSE 0), remain |-> remain1 - r]]

(***************************************************************************)
(* Token weights and thresholds.                                            *)
(***************************************************************************)
\* validators holding an index entry for token t, in address order
IdxVals(S, t) == { v \in Vals : S.lockIdx[<<t, v>>] # Absent }

RECURSIVE WeightWalk(_, _, _, _, _)
WeightWalk(S, t, old, new, todo) ==
  IF todo = {} THEN S
  ELSE LET v == CHOOSE x \in todo : \A y \in todo : x <= y
           amt == S.lockIdx[<<t, v>>]
           p0 == S.val[v].power
           p1 == IF new > old THEN p0 + PowerOf(new - old, amt) ELSE Max(p0 - PowerOf(old - new, amt), 0)
           S1 == RankDel(S, v, p0)
           S2 == [S1 EXCEPT !.val[v].power = p1]
       IN WeightWalk(RankAddPos(S2, v, p1), t, old, new, todo \ {v})

RECURSIVE ApplyWeights(_, _)
ApplyWeights(S, ws) ==
  IF ws = << >> THEN S
  ELSE LET u == Head(ws)
           tk == S.tokens[u.t]
           S1 == IF ~tk.exists THEN [S EXCEPT !.tokens[u.t] = [exists |-> TRUE, weight |-> u.w, threshold |-> 0]]
                 ELSE IF tk.weight = u.w THEN S
                 ELSE [WeightWalk(S, u.t, tk.weight, u.w, IdxVals(S, u.t)) EXCEPT !.tokens[u.t].weight = u.w]
       IN ApplyWeights(S1, Tail(ws))

RECURSIVE ApplyThresholds(_, _)
ApplyThresholds(S, ts) ==
  IF ts = << >> \/ S.err THEN S
  ELSE LET u == Head(ts) IN
       IF ~S.tokens[u.t].exists THEN Fail(S)
       ELSE ApplyThresholds([S EXCEPT !.tokens[u.t].threshold = u.th, !.thr[u.t] = u.th], Tail(ts))

UpdateTokens(S, ws, ts) == ApplyThresholds(ApplyWeights(S, ws), ts)

(***************************************************************************)
(* Create.  c = [v, addrOk]                                                 *)
(***************************************************************************)
RECURSIVE ApplyCreates(_, _)
ApplyCreates(S, cs) ==
  IF cs = << >> \/ S.err THEN S
  ELSE LET c == Head(cs) IN
       IF ~c.addrOk THEN Fail(S)
       ELSE IF S.val[c.v].exists THEN ApplyCreates(S, Tail(cs))
       ELSE ApplyCreates([S EXCEPT !.val[c.v] = [NoVal EXCEPT !.exists = TRUE, !.status = IF c.v \in S.hasAcc THEN "Inactive" ELSE "Pending"],
                                   !.hasAcc = @ \cup {c.v}], Tail(cs))

(***************************************************************************)
(* Lock.  The batch is aggregated per validator (coins summed per token),   *)
(* then applied validator by validator in order of first appearance.        *)
(***************************************************************************)
AggFor(locks, v) == [t \in Tokens |-> SeqSum([i \in 1..Len(locks) |-> IF locks[i].v = v /\ locks[i].t = t THEN locks[i].amt ELSE 0])]

RECURSIVE FirstOrder(_, _)
FirstOrder(locks, seen) ==
  IF locks = << >> THEN << >>
  ELSE IF Head(locks).v \in seen THEN FirstOrder(Tail(locks), seen)
  ELSE << Head(locks).v >> \o FirstOrder(Tail(locks), seen \cup {Head(locks).v})

\* add per-token power and refresh the index for the given token set
RECURSIVE AddCoins(_, _, _, _)
AddCoins(S, v, coins, todo) ==      \* coins: [Tokens -> Nat]; todo: tokens still to process (ascending)
  IF todo = {} \/ S.err THEN S
  ELSE LET t == CHOOSE x \in todo : \A y \in todo : x <= y IN
       IF ~S.tokens[t].exists THEN Fail(S)
       ELSE LET S1 == IF S.tokens[t].weight > 0 THEN [S EXCEPT !.val[v].power = @ + PowerOf(S.tokens[t].weight, coins[t])] ELSE S
                S2 == [S1 EXCEPT !.lockIdx[<<t, v>>] = S.val[v].locking[t]]
            IN AddCoins(S2, v, coins, todo \ {t})

LockOne(S0, v, coins, now) ==
  IF v \notin Vals \/ ~S0.val[v].exists THEN Fail(S0)
  ELSE
  LET S == [S0 EXCEPT !.val[v].locking = [t \in Tokens |-> @[t] + coins[t]]]
      st == S.val[v].status
      nz == { t \in Tokens : coins[t] > 0 }
  IN
  IF st \in {"Pending", "Active"} THEN
       LET S1 == RankDel(S, v, S.val[v].power)
           S2 == AddCoins(S1, v, coins, nz)
       IN IF S2.err THEN S2 ELSE RankAddPos(S2, v, S2.val[v].power)
  ELSE IF st = "Downgrade" THEN
       IF now > S.val[v].jailedUntil /\ AllGTE(S.val[v].locking, S.thr) THEN
         LET held == { t \in Tokens : S.val[v].locking[t] > 0 }
             S1 == [S EXCEPT !.val[v].status = "Pending"]
             S2 == AddCoins(S1, v, S.val[v].locking, held)
         IN IF S2.err THEN S2 ELSE RankAddPos(S2, v, S2.val[v].power)
       ELSE S
  ELSE S

RECURSIVE LockWalk(_, _, _, _)
LockWalk(S, order, locks, now) ==
  IF order = << >> \/ S.err THEN S
  ELSE LockWalk(LockOne(S, Head(order), AggFor(locks, Head(order)), now), Tail(order), locks, now)

ApplyLocks(S, locks, now) == LockWalk(S, FirstOrder(locks, {}), locks, now)

(***************************************************************************)
(* Unlock.  u = [id, v, t, amt]                                             *)
(***************************************************************************)
\* the unlock queue is keyed by maturity time: keep it ordered by (time, insertion)
InsertUnlock(q, e) ==
  LET k == Cardinality({ i \in 1..Len(q) : q[i].time <= e.time })
  IN SubSeq(q, 1, k) \o << e >> \o SubSeq(q, k + 1, Len(q))

UnlockOne(S, u, now) ==
  IF u.v \notin Vals \/ ~S.val[u.v].exists THEN Fail(S)
  ELSE
  LET v == u.v
      vd == S.val[v]
      S1 == RankDel(S, v, vd.power)
  IN
  IF u.t \notin Tokens \/ ~S.tokens[u.t].exists THEN Fail(S1)
  ELSE
  LET tk == S.tokens[u.t]
      amount == UnlockAmt(u.amt, vd.locking[u.t])
      remaining == vd.locking[u.t] - amount
      exiting == vd.status \in {"Inactive", "Tombstoned"} \/ remaining < tk.threshold
      p1 == IF amount # 0 /\ tk.weight > 0 /\ ~exiting /\ vd.status \in {"Active", "Pending"}
              THEN Max(vd.power - PowerOf(tk.weight, amount), 0) ELSE vd.power
      newLocking == [vd.locking EXCEPT ![u.t] = remaining]
      entry(time) == [time |-> time, id |-> u.id, token |-> u.t, amount |-> amount]
  IN
  IF exiting THEN
    [S1 EXCEPT !.val[v].power = 0,
               !.val[v].status = IF vd.status \in {"Active", "Pending", "Downgrade"} THEN "Inactive" ELSE vd.status,
               !.val[v].locking = newLocking,
               !.lockIdx = [k \in DOMAIN @ |-> IF k[2] = v /\ vd.locking[k[1]] > 0 THEN Absent ELSE @[k]],
               !.unlockQ = InsertUnlock(@, entry(now + ExitDur))]
  ELSE
    LET S2 == [S1 EXCEPT !.val[v].power = p1, !.val[v].locking = newLocking, !.unlockQ = InsertUnlock(@, entry(now + UnlockDur))]
    IN IF vd.status \in {"Active", "Pending"}
         THEN RankAddPos([S2 EXCEPT !.lockIdx[<<u.t, v>>] = IF remaining = 0 THEN Absent ELSE remaining], v, p1)
         ELSE S2

RECURSIVE ApplyUnlocks(_, _, _)
ApplyUnlocks(S, us, now) ==
  IF us = << >> \/ S.err THEN S ELSE ApplyUnlocks(UnlockOne(S, Head(us), now), Tail(us), now)

(***************************************************************************)
(* Claim.  c = [id, v]                                                      *)
(***************************************************************************)
RECURSIVE ApplyClaims(_, _)
ApplyClaims(S, cs) ==
  IF cs = << >> \/ S.err THEN S
  ELSE LET c == Head(cs) IN
       IF c.v \notin Vals \/ ~S.val[c.v].exists THEN Fail(S)
       ELSE ApplyClaims([S EXCEPT !.q.rewards = Append(@, [id |-> c.id, goat |-> S.val[c.v].reward, gas |-> S.val[c.v].gasReward]),
                                  !.val[c.v].reward = 0, !.val[c.v].gasReward = 0], Tail(cs))

(***************************************************************************)
(* Delivery: what the next execution block must carry for this module.      *)
(***************************************************************************)
Take(s, n) == SubSeq(s, 1, Min(Len(s), n))
Drop(s, n) == SubSeq(s, Min(Len(s), n) + 1, Len(s))

DueRewards(S) == Take(S.q.rewards, MaxRewardTx)
DueUnlocks(S) == Take(S.q.unlocks, MaxUnlockTx)

Deliver(S) ==
  [S EXCEPT !.q = [rewards |-> Drop(S.q.rewards, MaxRewardTx), unlocks |-> Drop(S.q.unlocks, MaxUnlockTx)],
            !.nonce = @ + Len(DueRewards(S)) + Len(DueUnlocks(S))]

(***************************************************************************)
(* The locking part of the execution-block message.                         *)
(* r = [gas, grants, weights, thresholds, creates, locks, unlocks, claims]  *)
(***************************************************************************)
Requests(S, r, h, now) ==
  LET S1 == UpdateRewardPool(S, r.gas, r.grants, h)
      S2 == IF S1.err THEN S1 ELSE UpdateTokens(S1, r.weights, r.thresholds)
      S3 == IF S2.err THEN S2 ELSE ApplyCreates(S2, r.creates)
      S4 == IF S3.err THEN S3 ELSE ApplyLocks(S3, r.locks, now)
      S5 == IF S4.err THEN S4 ELSE ApplyUnlocks(S4, r.unlocks, now)
  IN IF S5.err THEN S5 ELSE ApplyClaims(S5, r.claims)

BlockMsg(S, r, h, now) == Requests(Deliver(S), r, h, now)

(***************************************************************************)
(* BeginBlock.                                                              *)
(***************************************************************************)
\* -- reward distribution (small-amount regime: pool * |votes| far below 10^18).
\* The code multiplies the pool by the 18-digit ratio p/P ROUNDED DOWN (repaired: rounding to nearest could over-distribute) and
\* truncates: the result is floor(pool*p/P), except that an exactly divisible product comes out one lower when the ratio is
\* not exactly representable in 18 digits.
RECURSIVE Pow10Mod(_, _)
Pow10Mod(k, P) == IF k = 0 THEN 1 % P ELSE (10 * Pow10Mod(k - 1, P)) % P

Share(pool, p, P) ==
  LET x == pool * p
      frac == (p * Pow10Mod(18, P)) % P
  IN IF x % P = 0 /\ frac # 0 /\ x > 0 THEN FloorShare(pool, p, P) - 1 ELSE FloorShare(pool, p, P)

RECURSIVE DistWalk(_, _, _, _, _)
DistWalk(S, votes, P, gas0, goat0) ==
  IF votes = << >> \/ S.err THEN S
  ELSE LET vt == Head(votes) IN
       IF vt.v \notin Vals \/ ~S.val[vt.v].exists THEN Fail(S)
       ELSE LET sg == Share(gas0, vt.power, P)
                so == Share(goat0, vt.power, P)
            IN DistWalk([S EXCEPT !.val[vt.v].gasReward = @ + sg, !.val[vt.v].reward = @ + so,
                                  !.pool.gas = @ - sg, !.pool.goat = @ - so], Tail(votes), P, gas0, goat0)

Distribute(S, votes, h) ==
  IF h < 2 THEN S
  ELSE LET P == SeqSum([i \in 1..Len(votes) |-> votes[i].power]) IN
       IF P = 0 THEN S                   \* repaired: the first block of a chain has no last commit
       ELSE DistWalk(S, votes, P, S.pool.gas, S.pool.goat)

\* -- matured unlocks: time <= now, by (time, insertion order)
Matured(S, now) ==
  LET idx == { i \in 1..Len(S.unlockQ) : S.unlockQ[i].time <= now }
      RECURSIVE Go(_)
      Go(T) == IF T = {} THEN << >>
               ELSE LET i == CHOOSE x \in T : \A y \in T : S.unlockQ[x].time < S.unlockQ[y].time \/ (S.unlockQ[x].time = S.unlockQ[y].time /\ x <= y)
                        e == S.unlockQ[i]
                    IN << [id |-> e.id, token |-> e.token, amount |-> e.amount] >> \o Go(T \ {i})
  IN Go(idx)

Mature(S, now) ==
  [S EXCEPT !.q.unlocks = @ \o Matured(S, now),
            !.unlockQ = SelectSeq(@, LAMBDA e : e.time > now)]

\* -- slashing of every held token by a fraction (the whole amount if the slice truncates to zero)

Punish(S, v, num, den, newStatus, until) ==
  LET vd == S.val[v]
      S1 == RankDel(S, v, vd.power)
  IN [S1 EXCEPT !.slashed = [t \in Tokens |-> @[t] + (IF vd.locking[t] > 0 THEN SlashAmt(vd.locking[t], num, den) ELSE 0)],
                !.lockIdx = [k \in DOMAIN @ |-> IF k[2] = v /\ vd.locking[k[1]] > 0 THEN Absent ELSE @[k]],
                !.val[v].locking = [t \in Tokens |-> IF vd.locking[t] > 0 THEN vd.locking[t] - SlashAmt(vd.locking[t], num, den) ELSE 0],
                !.val[v].status = newStatus, !.val[v].power = 0, !.val[v].jailedUntil = until]

\* -- downtime accounting.  vote = [v, power, absent]
VoteOne(S, vt, now) ==
  IF vt.v \notin Vals \/ ~S.val[vt.v].exists THEN Fail(S)
  ELSE LET vd == S.val[vt.v] IN
  IF vd.status # "Active" THEN S
  ELSE LET missed1 == vd.missed + (IF vt.absent THEN 1 ELSE 0)
           down == missed1 >= MaxMissed
           off1 == vd.offset + 1
           wrap == off1 >= Window
           S1 == [S EXCEPT !.val[vt.v].missed = IF wrap THEN 0 ELSE missed1, !.val[vt.v].offset = IF wrap THEN 0 ELSE off1]
       IN IF down THEN Punish(S1, vt.v, DTNum, DTDen, "Downgrade", now + JailDur) ELSE S1

RECURSIVE VotesWalk(_, _, _)
VotesWalk(S, votes, now) == IF votes = << >> \/ S.err THEN S ELSE VotesWalk(VoteOne(S, Head(votes), now), Tail(votes), now)

\* -- evidence.  e = [v, h, t, known]   (known: duplicate vote / light-client attack; other kinds are ignored)
EvidenceOne(S, e, h, now) ==
  IF ~e.known THEN S
  ELSE IF (now - e.t) > MaxAgeTicks /\ (h - e.h) > MaxAgeBlocks THEN S
  ELSE IF e.v \notin Vals \/ ~S.val[e.v].exists THEN Fail(S)
  ELSE IF S.val[e.v].status = "Tombstoned" THEN S
  ELSE Punish(S, e.v, DSNum, DSDen, "Tombstoned", S.val[e.v].jailedUntil)

RECURSIVE EvidWalk(_, _, _, _)
EvidWalk(S, es, h, now) == IF es = << >> \/ S.err THEN S ELSE EvidWalk(EvidenceOne(S, Head(es), h, now), Tail(es), h, now)

Begin(S, votes, evid, h, now) ==
  LET S1 == Distribute(S, votes, h)
      S3 == IF S1.err THEN S1 ELSE VotesWalk(S1, votes, now)
  IN IF S3.err THEN S3 ELSE EvidWalk(S3, evid, h, now)

(***************************************************************************)
(* EndBlock: returns <<state, updates>>, updates a set of <<v, power>>      *)
(* (power 0 = removal).                                                     *)
(***************************************************************************)
\* ranking entries in descending (power, address) order
RankSeq(R) ==
  LET RECURSIVE Go(_)
      Go(T) == IF T = {} THEN << >>
               ELSE LET x == CHOOSE a \in T : \A b \in T : a[1] > b[1] \/ (a[1] = b[1] /\ a[2] >= b[2]) IN << x >> \o Go(T \ {x})
  IN Go(R)

RECURSIVE EndWalk(_, _, _, _, _)
EndWalk(S, rs, last, ups, count) ==     \* last: members of the recorded set not yet confirmed
  IF rs = << >> \/ count >= MaxVals \/ S.err THEN << S, last, ups >>
  ELSE LET v == Head(rs)[2]
           vd == S.val[v]
       IN IF vd.status = "Active" THEN
            LET changed == (IF S.valSet[v] = Absent THEN 0 ELSE S.valSet[v]) # vd.power
                S1 == IF changed THEN [S EXCEPT !.valSet[v] = vd.power] ELSE S
            IN EndWalk(S1, Tail(rs), last \ {v}, IF changed THEN ups \cup {<<v, vd.power>>} ELSE ups, count + 1)
          ELSE IF vd.status = "Pending" THEN
            IF v \in last THEN << Fail(S), last, ups >>
            ELSE EndWalk([S EXCEPT !.val[v].status = "Active", !.val[v].offset = 0, !.val[v].missed = 0, !.valSet[v] = vd.power],
                         Tail(rs), last, ups \cup {<<v, vd.power>>}, count + 1)
          ELSE << Fail(S), last, ups >>

\* matured unlocks are swept first (repaired order: the proposer of the next block and the execution of that
\* block see the same delivery queue), then the validator set is recomputed
End(S0, now) ==
  LET S == Mature(S0, now)
      members == { v \in Vals : S.valSet[v] # Absent }
      w == EndWalk(S, RankSeq(S.ranking), members, {}, 0)
      S1 == w[1]
      gone == w[2]
  IN IF S1.err THEN << S1, {} >>
     ELSE << [S1 EXCEPT !.val = [v \in Vals |-> IF v \in gone /\ @[v].status = "Active" THEN [@[v] EXCEPT !.status = "Pending"] ELSE @[v]],
                        !.valSet = [v \in Vals |-> IF v \in gone THEN Absent ELSE @[v]]],
             w[3] \cup { <<v, 0>> : v \in gone } >>

(***************************************************************************)
(* CometBFT's view of update lists (what it accepts).                       *)
(***************************************************************************)
CometAccepts(comet, ups) ==          \* comet: [Vals -> Int] (Absent = not a member)
  /\ \A u \in ups : u[2] >= 0
  /\ \A u \in ups : u[2] = 0 => comet[u[1]] # Absent          \* removal only of members
  /\ \A u, w \in ups : u[1] = w[1] => u = w                     \* no duplicates

CometApply(comet, ups) ==
  [v \in Vals |-> IF \E u \in ups : u[1] = v THEN LET p == (CHOOSE u \in ups : u[1] = v)[2] IN (IF p = 0 THEN Absent ELSE p) ELSE comet[v]]

(***************************************************************************)
(* Export ; InitGenesis: indices are rebuilt from the validator records.    *)
(***************************************************************************)
Reimport(S) ==
  [S EXCEPT
     !.lockIdx = [k \in DOMAIN @ |-> LET vd == S.val[k[2]] IN
                    IF vd.exists /\ vd.status \in {"Active", "Pending"} /\ vd.locking[k[1]] > 0 THEN vd.locking[k[1]] ELSE Absent],
     !.ranking = { <<S.val[v].power, v>> : v \in { x \in Vals : S.val[x].exists /\ S.val[x].status \in {"Active", "Pending"} /\ S.val[x].power > 0 } },
     !.valSet = [v \in Vals |-> IF S.val[v].exists /\ S.val[v].status = "Active" THEN S.val[v].power ELSE Absent],
     !.thr = [t \in Tokens |-> IF S.tokens[t].exists THEN S.tokens[t].threshold ELSE 0]]

(***************************************************************************)
(* Invariants over a state record.                                          *)
(***************************************************************************)
Members(S) == { v \in Vals : S.valSet[v] # Absent }
InRanking(S, v) == \E r \in S.ranking : r[2] = v

\* C13
RankingConsistent(S) ==
  /\ \A r \in S.ranking : S.val[r[2]].exists /\ S.val[r[2]].status \in {"Pending", "Active"} /\ S.val[r[2]].power = r[1] /\ r[1] > 0
  /\ \A r1, r2 \in S.ranking : r1[2] = r2[2] => r1 = r2
  /\ \A v \in Vals : (S.val[v].exists /\ S.val[v].status \in {"Pending", "Active"} /\ S.val[v].power > 0) => InRanking(S, v)

\* after EndBlock: the recorded set is the top-K of the ranking
SetIsTopK(S) ==
  /\ Cardinality(Members(S)) <= MaxVals
  /\ \A v \in Members(S) : S.val[v].status = "Active" /\ S.valSet[v] = S.val[v].power /\ S.val[v].power > 0
  /\ \A v \in Members(S), r \in S.ranking :
        r[2] \notin Members(S) => (S.val[v].power > r[1] \/ (S.val[v].power = r[1] /\ v > r[2]))
  /\ (Cardinality(Members(S)) < MaxVals) => \A r \in S.ranking : r[2] \in Members(S)
  /\ \A v \in Vals : (S.val[v].exists /\ S.val[v].status = "Active") => v \in Members(S)

IndexConsistent(S) ==
  \A t \in Tokens, v \in Vals :
     S.lockIdx[<<t, v>>] # Absent =>
        /\ S.val[v].exists /\ S.val[v].status \in {"Pending", "Active"}
        /\ S.lockIdx[<<t, v>>] = S.val[v].locking[t]

PunishedHaveNoPower(S) ==
  \A v \in Vals : S.val[v].status \in {"Tombstoned", "Downgrade", "Inactive"} =>
        (S.val[v].power = 0 /\ ~InRanking(S, v))

NonNegative(S) ==
  /\ \A v \in Vals, t \in Tokens : S.val[v].locking[t] >= 0
  /\ \A v \in Vals : S.val[v].reward >= 0 /\ S.val[v].gasReward >= 0 /\ S.val[v].power >= 0
  /\ \A t \in Tokens : S.slashed[t] >= 0
  /\ S.pool.goat >= 0 /\ S.pool.gas >= 0 /\ S.pool.remain >= 0
  /\ \A i \in 1..Len(S.unlockQ) : S.unlockQ[i].amount >= 0

Held(S, t) == SumOver(Vals, LAMBDA v : S.val[v].locking[t])
Accrued(S) == SumOver(Vals, LAMBDA v : S.val[v].reward + S.val[v].gasReward)
=============================================================================
