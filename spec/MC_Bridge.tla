----------------------------- MODULE MC_Bridge -----------------------------
(* Bounded exhaustive model of x/bitcoin.  One TLC step is one relayer message, one execution-layer   *)
(* request group or one delivery (block) step.  Families are cut by the Family constant:              *)
(*   "withdrawals": the withdrawal state machine (C05) with overlapping batches, fee bumps, cancels  *)
(*   "deposits":    SPV deposits over a small universe of transactions and flaws (C03)               *)
(*   "params":      arbitrary parameter update sequences over boundary values (C20)                  *)
EXTENDS Bridge
CONSTANTS Family, WdIds, MaxSteps, TaxRates, TaxMaxes, MinDeps, Confs, InitSets

\* initial parameter sets accepted by Params.Validate (boundary choices)
ParamsOf(name) ==
  CASE name = "plain"  -> [minDeposit |-> 10000, taxRate |-> 0, maxTax |-> 0, conf |-> 1]
    [] name = "dusty"  -> [minDeposit |-> 1000, taxRate |-> 0, maxTax |-> 0, conf |-> 1]
    [] name = "taxed"  -> [minDeposit |-> 1000, taxRate |-> 9999, maxTax |-> 100000000, conf |-> 1]
    [] name = "capped" -> [minDeposit |-> 10000, taxRate |-> 9999, maxTax |-> 1, conf |-> 6]
InitParams == { ParamsOf(n) : n \in InitSets }

VARIABLES br, hist, steps, last
vars == << br, hist, steps, last >>
View == << br, hist, steps >>
NoLast == [kind |-> "none"]

Scripts == {"sA", "sB"}
Key0 == "k0"

InitAll ==
  /\ \E p \in InitParams :
       br = [tip |-> 2, hashes |-> [h \in 0..2 |-> IF h = 0 THEN "g" ELSE IF h = 1 THEN "h1" ELSE "h2"], pubkeys |-> {Key0}, curKey |-> Key0,
             deposited |-> {}, wd |-> [i \in {} |-> NoWd], proc |-> [i \in {} |-> 0], nextPid |-> 0,
             q |-> [cursor |-> 2, deposits |-> << >>, paid |-> << >>, rejected |-> << >>], nonce |-> 0, params |-> p, err |-> FALSE]
  /\ hist = [credited |-> << >>, notified |-> << >>]
  /\ steps = 0 /\ last = NoLast

StepL(S1, lst) ==
  /\ br' = IF S1.err THEN br ELSE S1
  /\ steps' = steps + 1
  /\ last' = IF S1.err THEN NoLast ELSE lst
Step(S1) == StepL(S1, NoLast)

NoReq == [withdraws |-> << >>, rbf |-> << >>, cancel1 |-> << >>, tax |-> << >>, conf |-> << >>, minDep |-> << >>]

(* ---- withdrawals family ---- *)
FreshIds == { i \in WdIds : i \notin DOMAIN br.wd }
Withdraw ==
  \E id \in FreshIds, net \in {"regtest", "mainnet"}, sc \in Scripts, price \in {1, 2} :
     /\ id = CHOOSE x \in FreshIds : \A y \in FreshIds : x <= y         \* the execution layer allocates ids from a counter
     /\ Step(ElRequests(br, [NoReq EXCEPT !.withdraws = << [id |-> id, amount |-> 5, price |-> price, addr |-> sc, net |-> net, kind |-> "p2wpkh"] >>]))
     /\ UNCHANGED hist
Rbf == \E id \in WdIds, price \in {1, 3} :
     /\ Step(ElRequests(br, [NoReq EXCEPT !.rbf = << [id |-> id, price |-> price] >>])) /\ UNCHANGED hist
Cancel == \E id \in WdIds : Step(ElRequests(br, [NoReq EXCEPT !.cancel1 = << id >>])) /\ UNCHANGED hist

IdSeqs == { << a >> : a \in WdIds } \cup { << a, b >> : a \in WdIds, b \in WdIds }
OutFor(id, flaw) == [script |-> IF flaw = "script" THEN "sX" ELSE WdOf(br, id).addr, value |-> IF flaw = "amount" THEN 6 ELSE 4]

Process ==
  \E ids \in IdSeqs, flaw \in {"none", "script", "amount", "fee", "vote", "change", "badChange"}, txn \in {"t1", "t2", "t3"} :
    LET base == [i \in DOMAIN ids |-> OutFor(ids[i], flaw)]
        outs == IF flaw = "change" THEN Append(base, [script |-> Key0, value |-> 1])
                ELSE IF flaw = "badChange" THEN Append(base, [script |-> "sX", value |-> 1]) ELSE base
        m == [wf |-> TRUE, parseOk |-> TRUE, ids |-> ids, outs |-> outs, fee |-> IF flaw = "fee" THEN 25 ELSE 10, size |-> 10, txid |-> txn, voteOk |-> flaw # "vote"]
        S1 == ProcessWithdrawal(br, m)
    IN /\ StepL(S1, [kind |-> "batch", ids |-> ids, outs |-> outs, fee |-> m.fee, size |-> 10])
       /\ UNCHANGED hist

Replace ==
  \E pid \in DOMAIN br.proc, fee \in {10, 20, 40}, txn \in {"t1", "t2", "t3", "t4"}, flaw \in {"none", "script"} :
    LET p == br.proc[pid]
        outs == [i \in DOMAIN p.ids |-> OutFor(p.ids[i], flaw)]
        m == [wf |-> TRUE, parseOk |-> TRUE, pid |-> pid, outs |-> outs, fee |-> fee, size |-> 10, txid |-> txn, voteOk |-> TRUE]
        S1 == ReplaceWithdrawal(br, m)
    IN /\ StepL(S1, [kind |-> "batch", ids |-> p.ids, outs |-> outs, fee |-> fee, size |-> 10])
       /\ UNCHANGED hist

Finalize ==
  \E pid \in 0..2, txn \in {"t1", "t2", "t3", "t4"}, flaw \in {"none", "spv", "hdr"} :
     /\ Step(FinalizeWithdrawal(br, [wf |-> TRUE, pfOk |-> TRUE, pid |-> pid, txid |-> txn, blk |-> 1, hdr |-> IF flaw = "hdr" THEN "h2" ELSE "h1", spvOk |-> flaw # "spv"]))
     /\ UNCHANGED hist

Approve == \E ids \in IdSeqs : Step(ApproveCancellation(br, [wf |-> TRUE, pfOk |-> TRUE, ids |-> ids])) /\ UNCHANGED hist

(* ---- deposits family ---- *)
DepUniverse ==
  { [wf |-> TRUE, key |-> k, keyType |-> "secp256k1", blk |-> b, pos |-> pos, hdr |-> hdr, parseOk |-> TRUE, txid |-> t, nOuts |-> 2, outIdx |-> oi, value |-> v,
     version |-> ver, evm |-> "e1", spvOk |-> spv, gen |-> [key |-> Key0, evm |-> ge, version |-> 0, magicOk |-> TRUE]] :
      k \in {Key0, "kU"}, b \in {1, 3}, pos \in {0, 1}, hdr \in {"h1", "h2"}, t \in {"d1", "d2"}, oi \in {0, 2}, v \in {900, 20000},
      ver \in {0, 1}, spv \in BOOLEAN, ge \in {"e1", "e2"} }
Deposits ==
  \E d1 \in DepUniverse, two \in BOOLEAN :
     LET S1 == NewDeposits(br, [wf |-> TRUE, pfOk |-> TRUE, deps |-> IF two THEN << d1, d1 >> ELSE << d1 >>]) IN
     Step(S1) /\ UNCHANGED hist
MoreHashes == Step(NewBlockHashes(br, [wf |-> TRUE, start |-> br.tip + 1, hashes |-> << "hn" >>, voteOk |-> TRUE])) /\ UNCHANGED hist
TaxUpdate == \E r \in TaxRates, mx \in TaxMaxes : Step(ElRequests(br, [NoReq EXCEPT !.tax = << [rate |-> r, max |-> mx] >>])) /\ UNCHANGED hist

(* ---- params family ---- *)
ParamUpdate ==
  \E r \in TaxRates, mx \in TaxMaxes, md \in MinDeps, cf \in Confs, which \in SUBSET {"tax", "min", "conf"} :
     /\ which # {}
     /\ Step(ElRequests(br, [NoReq EXCEPT !.tax = IF "tax" \in which THEN << [rate |-> r, max |-> mx] >> ELSE << >>,
                                          !.minDep = IF "min" \in which THEN << md >> ELSE << >>,
                                          !.conf = IF "conf" \in which THEN << cf >> ELSE << >>]))
     /\ UNCHANGED hist

(* ---- delivery (one execution block) ---- *)
DeliverStep ==
  LET d == Due(br) IN
  /\ br' = Deliver(br)
  /\ steps' = steps + 1 /\ last' = NoLast
  /\ hist' = [hist EXCEPT !.credited = @ \o d.deposits,
                          !.notified = @ \o [i \in DOMAIN d.paid |-> [id |-> d.paid[i].id, kind |-> "paid", amount |-> d.paid[i].amount]]
                                         \o [i \in DOMAIN d.rejected |-> [id |-> d.rejected[i], kind |-> "refund", amount |-> 0]]]

Next ==
  \/ Family = "withdrawals" /\ (Withdraw \/ Rbf \/ Cancel \/ Process \/ Replace \/ Finalize \/ Approve \/ DeliverStep)
  \/ Family = "deposits" /\ (Deposits \/ MoreHashes \/ TaxUpdate \/ DeliverStep)
  \/ Family = "params" /\ (ParamUpdate \/ Deposits)

Bound == steps <= MaxSteps

(* ---- properties ---- *)
EdgesOk == [][\A id \in DOMAIN br'.wd : Edge(WdOf(br, id).status, br'.wd[id].status)]_vars
TerminalAbsorbing == [][\A id \in DOMAIN br.wd : br.wd[id].status \in Terminal => WdOf(br', id).status = br.wd[id].status]_vars
NotifiedOnce == \A i, j \in DOMAIN hist.notified : i # j => hist.notified[i].id # hist.notified[j].id
NotifiedMatchesStatus == \A i \in DOMAIN hist.notified :
   WdOf(br, hist.notified[i].id).status = (IF hist.notified[i].kind = "paid" THEN "paid" ELSE "canceled")
\* every accepted batch (process or fee bump) pays exactly the user's script, at most the requested amount, within the fee
\* cap current at that moment, with at most one extra output which pays the then-current relayer key
BatchesWithinTerms ==
  [][last'.kind = "batch" =>
      LET b == last' IN
      /\ \A i \in DOMAIN b.ids : LET w == WdOf(br, b.ids[i]) IN b.outs[i].script = w.addr /\ b.outs[i].value <= w.amount /\ b.fee <= w.maxPrice * b.size
      /\ Len(b.outs) \in {Len(b.ids), Len(b.ids) + 1}
      /\ Len(b.outs) = Len(b.ids) + 1 => b.outs[Len(b.outs)].script = br.curKey
      /\ \A i, j \in DOMAIN b.ids : i # j => b.ids[i] # b.ids[j]]_vars
ProcessingHasBatch ==
  \A id \in DOMAIN br.wd : br.wd[id].status = "processing" => \E pid \in DOMAIN br.proc : \E i \in DOMAIN br.proc[pid].ids : br.proc[pid].ids[i] = id
PaidAmountIsOutput == \A i \in DOMAIN hist.notified : hist.notified[i].kind = "paid" => hist.notified[i].amount = 4
CreditedOnce == \A i, j \in DOMAIN hist.credited : i # j => << hist.credited[i].txid, hist.credited[i].vout >> # << hist.credited[j].txid, hist.credited[j].vout >>
DepositedOnlyGood ==
  \A i \in DOMAIN hist.credited : LET c == hist.credited[i] IN c.amount + c.tax = 20000 /\ c.tax < c.amount + c.tax /\ c.amount > 0
ParamsSafeInv == ParamsSafe(br.params)
QueueOk == QueueSane(br)
HashesAppendOnly == [][\A h \in DOMAIN br.hashes : h \in DOMAIN br'.hashes /\ br'.hashes[h] = br.hashes[h]]_vars
=============================================================================
