CONSTANTS
  CapDeposits = 1
  CapWithdrawals = 2
  CapRewards = 1
  CapUnlocks = 2
  MaxTxs = 16
  MaxItems = 3
  MaxBlocks = 5
  UsedKinds = {"hash", "paid", "reject", "unlock"}
INIT Init
NEXT Next
CONSTRAINT Bound
INVARIANTS HandedIsPrefix NothingDropped NoDup NoncesCount WithinCaps
PROPERTIES HeadByChildrenOnly OnlyCommitChangesState
CHECK_DEADLOCK FALSE
