---------------------------- MODULE Trace_Export ----------------------------
(* Whole-application facts of export -> InitChain on a fresh application (C18):                    *)
(*   the export succeeds, the exported state is importable, a second export (taken from the state  *)
(*   InitChain produced) is identical module by module, the initial validator set equals the       *)
(*   exported active set, every gRPC query handler of the four modules gives the same answer on   *)
(*   both chains (parameterless queries and keyed ones for every known validator, member,         *)
(*   withdrawal id), and the imported chain can finalise blocks.                                   *)
(* The module-level equivalence (derived indices and queues) is checked by the `reimport` events   *)
(* of Trace_Locking / Trace_Bridge / Trace_Relayer on the same runs.                               *)
EXTENDS Naturals, Sequences, Json, TLC
Trace == ndJsonDeserialize("trace.ndjson")
VARIABLE l
Init == l = 1
Next == /\ l <= Len(Trace)
        /\ Trace[l].ev = "export"
        /\ Trace[l].ok
        /\ (Trace[l].phase = "import") => (Trace[l].identical /\ Trace[l].valsEqual /\ Trace[l].queriesEqual)
        /\ l' = l + 1
Reached == PrintT(<<"TRACE_REACHED", TLCGet("stats").diameter - 1, Len(Trace)>>)
=============================================================================
