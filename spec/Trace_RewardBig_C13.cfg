CONSTANTS
  Bind = {"set"}
INIT Init
NEXT Next
POSTCONDITION Reached
CHECK_DEADLOCK FALSE
