------------------------------ MODULE Handover ------------------------------
(***************************************************************************)
(* The consensus / execution protocol of x/goat around one height:          *)
(*   PrepareProposal  (engine: forkchoiceUpdated+attributes, getPayload)    *)
(*   ProcessProposal  (structural checks || engine newPayload)              *)
(*   FinalizeBlock    (BeginBlock ; block message ; relayer txs ; EndBlock  *)
(*                     with engine newPayload + forkchoiceUpdated)          *)
(*   Commit / abandoned round / crash / restart                             *)
(* and the hand-over queues of system transactions owed to the execution    *)
(* layer (bitcoin: block hashes, deposits, paid, rejected; locking:         *)
(* rewards, unlocks).                                                       *)
(*                                                                         *)
(* Queue items are opaque ids.  WHY an item is owed is the business of      *)
(* Bridge.tla / Locking.tla; this module specifies WHEN and HOW it is       *)
(* handed over: exactly once, in order, within caps, with consecutive       *)
(* nonces, only by a finalised-and-committed block, and what an acceptable  *)
(* proposal looks like.                                                     *)
(***************************************************************************)
EXTENDS Integers, Sequences, FiniteSets, TLC

CONSTANTS CapDeposits, CapWithdrawals, CapRewards, CapUnlocks, MaxTxs

Kinds == {"hash", "deposit", "paid", "reject", "reward", "unlock"}
BridgeKinds == << "hash", "deposit", "paid", "reject" >>
LockingKinds == << "reward", "unlock" >>

Min(a, b) == IF a < b THEN a ELSE b
Take(s, n) == SubSeq(s, 1, Min(Len(s), n))
Drop(s, n) == SubSeq(s, Min(Len(s), n) + 1, Len(s))
IsPrefix(s, t) == Len(s) <= Len(t) /\ SubSeq(t, 1, Len(s)) = s
Range(s) == { s[i] : i \in DOMAIN s }

(* committed state C: [head: [hash, number], beacon, q: [Kinds -> Seq(id)], nonce: [bridge, locking]] *)

(* What the next payload must carry, in order. *)
DueOf(q) ==
  LET h == Take(q["hash"], 1)
      d == Take(q["deposit"], CapDeposits)
      p == Take(q["paid"], CapWithdrawals)
      r == Take(q["reject"], CapWithdrawals - Len(p))
      w == Take(q["reward"], CapRewards)
      u == Take(q["unlock"], CapUnlocks)
  IN [hash |-> h, deposit |-> d, paid |-> p, reject |-> r, reward |-> w, unlock |-> u]

DueBridgeCount(q) == LET d == DueOf(q) IN Len(d.hash) + Len(d.deposit) + Len(d.paid) + Len(d.reject)
DueLockingCount(q) == LET d == DueOf(q) IN Len(d.reward) + Len(d.unlock)

\* the due list as one sequence of [kind, id, nonce]
RECURSIVE Tag(_, _, _)
Tag(s, kind, n0) == IF s = << >> THEN << >> ELSE << [kind |-> kind, id |-> Head(s), nonce |-> n0] >> \o Tag(Tail(s), kind, n0 + 1)

DueList(C) ==
  LET d == DueOf(C.q)
      b0 == C.nonce.bridge
      l0 == C.nonce.locking
      hs == Tag(d.hash, "hash", b0)
      ds == Tag(d.deposit, "deposit", b0 + Len(d.hash))
      ps == Tag(d.paid, "paid", b0 + Len(d.hash) + Len(d.deposit))
      rs == Tag(d.reject, "reject", b0 + Len(d.hash) + Len(d.deposit) + Len(d.paid))
      ws == Tag(d.reward, "reward", l0)
      us == Tag(d.unlock, "unlock", l0 + Len(d.reward))
  IN hs \o ds \o ps \o rs \o ws \o us

(* The committed state after the block message of a finalised block succeeded. *)
AfterDelivery(C) ==
  LET d == DueOf(C.q) IN
  [C EXCEPT !.q = [k \in Kinds |-> Drop(C.q[k], Len(d[k]))],
            !.nonce = [bridge |-> C.nonce.bridge + DueBridgeCount(C.q), locking |-> C.nonce.locking + DueLockingCount(C.q)]]

(***************************************************************************)
(* Proposals.  A proposal p is a record of facts about its transactions:    *)
(*   ntx            number of transactions                                  *)
(*   first          class of tx 0: "block" | "relayer" | "other" | "garbage"*)
(*   firstMsgs      number of messages in tx 0                              *)
(*   blockElsewhere a block message also occurs in a later transaction      *)
(*   restOk         every later tx is admissible (decodes, signed by the    *)
(*                  relayer proposer, relayer/bridge messages only, ...)    *)
(*   signerOk       tx 0 is signed by / names the height's proposer         *)
(*   recipientOk    fee recipient = proposer                                *)
(*   parentOk, numberOk, beaconOk, timeOk, timeoutOk                        *)
(*   reqOk          request list decodes with exactly one gas request       *)
(*   sys            the leading system transactions [kind, id, nonce]       *)
(*   sysCountOk     the count byte equals Len(sys) and the payload has them  *)
(*   engine         what the engine answers to newPayload                   *)
(***************************************************************************)
ProcessAccepts(C, p) ==
  /\ p.ntx >= 1 /\ p.ntx <= MaxTxs
  /\ p.first = "block" /\ p.firstMsgs = 1
  /\ ~p.blockElsewhere
  /\ p.restOk
  /\ p.signerOk /\ p.recipientOk /\ p.timeoutOk
  /\ p.timeOk
  /\ p.parentOk /\ p.numberOk
  /\ p.reqOk
  /\ p.beaconOk
  /\ p.sysCountOk
  /\ p.sys = DueList(C)
  /\ p.engine = "VALID"

(* Whether the block message of a finalised block succeeds (goat-level checks; the module requests may still fail). *)
BlockMsgChecks(C, p) ==
  /\ p.signerOk /\ p.recipientOk /\ p.timeoutOk        \* signature and timeout = height are the admission rules (C10) applied in FinalizeBlock
  /\ p.parentOk /\ p.numberOk
  /\ p.blobOk
  /\ p.beaconOk
  /\ p.sysCountOk /\ p.sys = DueList(C)
  /\ p.reqDecodeOk

(* Engine answers at the end of FinalizeBlock: error / INVALID abort the block, anything else lets it through. *)
EndEngineOk(np, fcu) == np \notin {"error", "INVALID", "timeout"} /\ fcu \notin {"error", "INVALID", "timeout"}

(***************************************************************************)
(* Invariants on histories.                                                 *)
(***************************************************************************)
NoDuplicates(s) == \A i, j \in DOMAIN s : i # j => s[i] # s[j]
=============================================================================
