CONSTANTS
  Vals = {1,2,3,4,5}
  Tokens = {1,2,3,4}
  PowerReduction = 1
  UnlockDur = 2
  ExitDur = 4
  JailDur = 3
  MaxVals = 2
  Window = 3
  MaxMissed = 2
  DSNum = 1
  DSDen = 2
  DTNum = 1
  DTDen = 4
  Halving = 5
  InitialReward = 8
  MaxAgeBlocks = 3
  MaxAgeTicks = 3
  MaxRewardTx = 16
  MaxUnlockTx = 16
  Debug = FALSE
  Bind = {"queues"}
INIT TInit
NEXT TNext
INVARIANTS DeliveredOnce
POSTCONDITION Reached
CHECK_DEADLOCK FALSE
