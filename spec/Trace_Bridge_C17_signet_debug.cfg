CONSTANTS
  MaxDepositTx = 8
  MaxWithdrawalTx = 8
  Network = "signet"
  Debug = TRUE
  Bind = {"v.deposits", "v.pubkey", "blockmsg", "withdrawals", "refunds"}
INIT TInit
NEXT TNext
INVARIANTS CreditedOnce
PROPERTIES EdgesOk
POSTCONDITION Reached
CHECK_DEADLOCK FALSE
