CONSTANTS
  Members = {1,2,3,4,5,6,7,8}
  Period = 5
  AcceptTimeout = 2
  Bind = {"newvoter", "accept", "group", "epoch", "accepted", "accounts"}
INIT TInit
NEXT TNext
INVARIANTS SingleUse WellFormed
POSTCONDITION Reached
CHECK_DEADLOCK FALSE
