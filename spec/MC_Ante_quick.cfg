CONSTANTS
  OutFile = "cases.ndjson"
  Full = FALSE
INIT Init
NEXT Next
INVARIANTS Statement NoAdmin BlockNeverInMempool
POSTCONDITION WriteCases
CHECK_DEADLOCK FALSE
