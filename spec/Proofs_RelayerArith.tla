------------------------- MODULE Proofs_RelayerArith -------------------------
(***************************************************************************)
(* Unbounded lemmas about the relayer quorum (C01), checked by TLAPS: for   *)
(* EVERY group size the threshold the specification (and the code) uses is  *)
(* exactly ceil(2(n+1)/3), never exceeds the group, and any two quorums     *)
(* overlap in more than a third of the group.  TLC checks group sizes 0..5. *)
(***************************************************************************)
EXTENDS RelayerArith, TLAPS

(* T = ceil(2m/3) for m = n + 1 members:  3T >= 2m  and  3(T - 1) < 2m *)
THEOREM ThresholdIsCeiling ==
  \A n \in Nat : /\ Threshold(n) \in Nat
                 /\ 3 * Threshold(n) >= 2 * (n + 1)
                 /\ 3 * (Threshold(n) - 1) < 2 * (n + 1)
  BY DEF Threshold

(* a quorum never needs more signatures than there are members, and always needs the proposer plus, for n >= 1, at least one voter *)
THEOREM ThresholdWithinGroup ==
  \A n \in Nat : /\ Threshold(n) <= n + 1
                 /\ Threshold(n) >= 1
                 /\ (n >= 1 => Threshold(n) >= 2)
  BY DEF Threshold

(* two quorums of a group of m = n + 1 members share at least 2T - m members, which is at least a third of the group *)
THEOREM QuorumsIntersect ==
  \A n \in Nat : /\ 2 * Threshold(n) - (n + 1) >= 1
                 /\ 3 * (2 * Threshold(n) - (n + 1)) >= n + 1
  BY DEF Threshold

(* the threshold is monotone in the group size *)
THEOREM ThresholdMonotone == \A n \in Nat : Threshold(n) <= Threshold(n + 1) /\ Threshold(n + 1) <= Threshold(n) + 1
  BY DEF Threshold
=============================================================================
