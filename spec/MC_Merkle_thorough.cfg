CONSTANTS
  MaxLeaves = 9
  OutFile = "cases.ndjson"
INIT Init
NEXT Next
INVARIANTS Complete PositionBinding CoinbaseOnlyAtZero MalformedRejected PositionBounded
POSTCONDITION WriteCases
CHECK_DEADLOCK FALSE
