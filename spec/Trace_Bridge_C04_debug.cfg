CONSTANTS
  MaxDepositTx = 8
  MaxWithdrawalTx = 8
  Network = "regtest"
  Debug = TRUE
  Bind = {"v.deposits", "v.finalize"}
INIT TInit
NEXT TNext
POSTCONDITION Reached
CHECK_DEADLOCK FALSE
