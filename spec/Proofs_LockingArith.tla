------------------------- MODULE Proofs_LockingArith -------------------------
(***************************************************************************)
(* Unbounded lemmas behind C11 ("no held, slashed or released amount is     *)
(* ever negative", "an unlock never releases more than was requested nor    *)
(* more than the validator still holds"), checked by TLAPS for EVERY amount *)
(* and EVERY slash fraction num/den <= 1.                                   *)
(***************************************************************************)
EXTENDS LockingArith, TLAPS

LEMMA DivLe == \A x \in Nat, a \in Nat, d \in Nat : (d > 0 /\ x <= a * d) => (x \div d <= a /\ x \div d \in Nat)
  OBVIOUS

LEMMA MulLe == \A a \in Nat, n \in Nat, d \in Nat : n <= d => a * n <= a * d
  OBVIOUS

THEOREM SlashWithinHolding ==
  \A a \in Nat, num \in Nat, den \in Nat :
     (a > 0 /\ den > 0 /\ num <= den) => (SlashAmt(a, num, den) > 0 /\ SlashAmt(a, num, den) <= a)
<1> SUFFICES ASSUME NEW a \in Nat, NEW num \in Nat, NEW den \in Nat, a > 0, den > 0, num <= den
             PROVE SlashAmt(a, num, den) > 0 /\ SlashAmt(a, num, den) <= a
    OBVIOUS
<1> DEFINE x == (a * num) \div den
<1>1. a * num \in Nat /\ a * num <= a * den
    BY MulLe
<1>2. x <= a /\ x \in Nat
    BY <1>1, DivLe
<1>3. SlashAmt(a, num, den) = IF x = 0 THEN a ELSE x
    BY DEF SlashAmt
<1> QED BY <1>2, <1>3

(* C12: the emission step moves at most what is scheduled and at most what is left of the grants; nothing is created or lost *)
THEOREM EmissionConserves ==
  \A scheduled \in Nat, remain \in Nat, goat \in Nat :
     LET m == EmissionMove(scheduled, remain) IN
     /\ m \in Nat /\ m <= scheduled /\ m <= remain
     /\ (remain - m) >= 0
     /\ (remain - m) + (goat + m) = remain + goat
  BY DEF EmissionMove, Min

(* C12: a validator's share never exceeds the pool it is taken from (its power is part of the total) and is never negative *)
THEOREM ShareWithinPool ==
  \A pool \in Nat, p \in Nat, P \in Nat :
     (P > 0 /\ p <= P) => (FloorShare(pool, p, P) <= pool /\ FloorShare(pool, p, P) \in Nat)
<1> SUFFICES ASSUME NEW pool \in Nat, NEW p \in Nat, NEW P \in Nat, P > 0, p <= P
             PROVE FloorShare(pool, p, P) <= pool /\ FloorShare(pool, p, P) \in Nat
    OBVIOUS
<1>1. pool * p \in Nat /\ pool * p <= pool * P
    BY MulLe
<1> QED BY <1>1, DivLe DEF FloorShare

THEOREM UnlockWithinBounds ==
  \A asked \in Nat, held \in Nat :
     /\ UnlockAmt(asked, held) <= asked /\ UnlockAmt(asked, held) <= held
     /\ UnlockAmt(asked, held) >= 0 /\ held - UnlockAmt(asked, held) >= 0
  BY DEF UnlockAmt, Min
=============================================================================
