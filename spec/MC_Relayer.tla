----------------------------- MODULE MC_Relayer -----------------------------
(* Bounded exhaustive model of the relayer module for C02 (single-use votes) and C16 (group      *)
(* well-formedness, joining by proof, timely elections).  Every interleaving of execution-layer  *)
(* add/remove requests, voter registrations (valid, forged, re-joining), proposer acceptances,   *)
(* genuine / withheld / re-submitted votes and block ends with arbitrary time steps.            *)
EXTENDS Relayer
CONSTANTS MaxTime, MaxSeq, MaxEpoch, InitVoterSet, MaxIssued
InitVoters == SortedSeq(InitVoterSet)

VARIABLES now, height, issued, nextVid
mvars == << now, height, issued, nextVid >>
vars == << rvars, mvars >>

Kinds == {"NewBlockHashes", "NewPubkey"}
Payloads == {"a", "b"}

Init ==
  /\ proposer = 1 /\ voters = InitVoters
  /\ epoch = 0 /\ lastElected = 0 /\ accepted = TRUE
  /\ rec = [m \in Members |-> IF m = 1 \/ m \in Range(InitVoters) THEN [status |-> "active", key |-> "key", height |-> 0] ELSE NoRec]
  /\ onQ = << >> /\ offQ = << >> /\ seq = 0 /\ randao = << >> /\ pubkeys = {}
  /\ accounts = {1} \cup Range(InitVoters) \cup {CHOOSE m \in Members : m = Cardinality(Members)}   \* the last identity already owns an account
  /\ halted = FALSE
  /\ now = 0 /\ height = 1 /\ issued = {} /\ nextVid = 1

SmallSeqs(S) == {<< >>} \cup { << a >> : a \in S } \cup { << a, b >> : a \in S, b \in S }

ElReq ==
  \E adds \in SmallSeqs(Members), rms \in SmallSeqs(Members) :
    /\ adds # << >> \/ rms # << >>
    /\ ElRequests(adds, rms, height)
    /\ UNCHANGED mvars

NewVoterTx ==
  \E v \in Members, flaw \in {"none", "keyHash", "txProof", "blsProof", "sizes", "pf"} :
    LET p == [pf |-> IF flaw = "pf" THEN v ELSE proposer, voter |-> v, sizesOk |-> flaw # "sizes", keyHashOk |-> flaw # "keyHash",
              txProofOk |-> flaw # "txProof", blsProofOk |-> flaw # "blsProof"] IN
    /\ IF NewVoterOk(p) THEN NewVoterApply(p) ELSE UNCHANGED rvars
    /\ UNCHANGED mvars

AcceptTx ==
  \E pf \in Members, ep \in {epoch, epoch + 1} :
    /\ IF AcceptProposerOk(pf, ep, now) THEN AcceptProposerApply ELSE UNCHANGED rvars
    /\ UNCHANGED mvars

FullMarks == 0..(Len(voters) - 1)

\* the whole group signs the current sign-doc; the vote is issued and either submitted at once or withheld
Issue(submit) ==
  \E kind \in Kinds, pl \in Payloads :
    LET v == [id |-> nextVid, doc |-> CurrentDoc(kind, pl), signers |-> MemberSet, kind |-> kind, payload |-> pl] IN
    /\ Cardinality(issued) < MaxIssued
    /\ issued' = issued \cup {v}
    /\ nextVid' = nextVid + 1
    /\ UNCHANGED << now, height >>
    /\ IF submit
         THEN /\ QuorumOk([pf |-> proposer, mseq |-> seq, mepoch |-> epoch, marks |-> FullMarks, signers |-> v.signers, doc |-> v.doc, sigOk |-> TRUE], kind, pl)
              /\ AcceptVoted(v.id) /\ UNCHANGED pubkeys
         ELSE UNCHANGED rvars

\* the adversary re-submits any vote ever produced, under any context it likes
Resubmit ==
  \E v \in issued, kind \in Kinds, pl \in Payloads, marks \in SUBSET (0..2) :
    /\ IF QuorumOk([pf |-> proposer, mseq |-> seq, mepoch |-> epoch, marks |-> marks, signers |-> v.signers, doc |-> v.doc, sigOk |-> TRUE], kind, pl)
         THEN AcceptVoted(v.id) /\ UNCHANGED pubkeys
         ELSE UNCHANGED rvars
    /\ UNCHANGED mvars

End ==
  \E dt \in 0..2, idx \in 0..2 :
    /\ now' = now + dt
    /\ height' = height
    /\ LET n == ElectorateSize(now + dt) IN IF n > 1 THEN idx < n ELSE idx = 0
    /\ EndBlock(now + dt, idx)
    /\ UNCHANGED << issued, nextVid >>

Next == ElReq \/ NewVoterTx \/ AcceptTx \/ Issue(TRUE) \/ Issue(FALSE) \/ Resubmit \/ End

Bound == now <= MaxTime /\ seq <= MaxSeq /\ epoch <= MaxEpoch

(* C02 *)
NoVoteTwice == Distinct(randao)
SeqStep == [][seq' \in {seq, seq + 1} /\ (seq' = seq + 1 <=> Len(randao') = Len(randao) + 1)]_vars
RejectChangesNothing == [][(seq' = seq /\ ~(End \/ ElReq \/ NewVoterTx \/ AcceptTx)) => UNCHANGED rvars]_vars

(* C16 *)
EpochStep == [][epoch' # epoch => (epoch' = epoch + 1 /\ lastElected' = now' /\ ElectionDue(now'))]_vars
ElectionTimely == [][(End /\ ElectionDue(now') /\ ~halted') => epoch' = epoch + 1]_vars
\* a voter enters the group only at an election, and only from the on-boarding queue, which only a fully proven registration fills
JoinOnlyByProof == [][\A m \in Members : (m \in Range(voters') \cup {proposer'} /\ m \notin MemberSet) => (m \in Range(onQ) /\ epoch' = epoch + 1)]_vars
=============================================================================
