----------------------------- MODULE MC_Handover -----------------------------
(* Bounded exhaustive model of the hand-over protocol (C06, C09): blocks whose message succeeds or  *)
(* fails, rounds that are prepared / processed but never decided, engine faults at the end of a     *)
(* block, crashes between FinalizeBlock and Commit, restarts; queues over-filled beyond their caps. *)
EXTENDS Handover
CONSTANTS MaxItems, MaxBlocks, UsedKinds

VARIABLES C, pend, enq, handed, nextId, blocks, round
vars == << C, pend, enq, handed, nextId, blocks, round >>
None == [none |-> TRUE]

Init ==
  /\ C = [head |-> [hash |-> 0, number |-> 0, parent |-> 0], beacon |-> 0, q |-> [k \in Kinds |-> << >>], nonce |-> [bridge |-> 0, locking |-> 0]]
  /\ pend = None /\ enq = [k \in Kinds |-> << >>] /\ handed = [k \in Kinds |-> << >>] /\ nextId = 1 /\ blocks = 0 /\ round = 0

\* new items a block may add to the queues (by its own requests, relayer transactions, matured unlocks)
NewItemSets == { f \in [UsedKinds -> 0..2] : TRUE }
RECURSIVE Ids(_, _)
Ids(n0, n) == IF n = 0 THEN << >> ELSE << n0 >> \o Ids(n0 + 1, n - 1)

\* a proposal round that is not decided: prepare and process read the committed state only
AbandonRound == /\ pend = None /\ round < 2 /\ round' = round + 1 /\ UNCHANGED << C, pend, enq, handed, nextId, blocks >>

Finalize(msgOk, engineOk, add) ==
  /\ pend = None /\ blocks < MaxBlocks
  /\ LET base == IF msgOk THEN [AfterDelivery(C) EXCEPT !.head = [hash |-> C.head.hash + 1, number |-> C.head.number + 1, parent |-> C.head.hash], !.beacon = blocks + 1]
                 ELSE C
         off == [k \in Kinds |-> IF k \in UsedKinds THEN add[k] ELSE 0]
         start == [k \in Kinds |-> Len(enq[k]) + 1]       \* ids are per kind: 1, 2, 3, ... in creation order
         withNew == [base EXCEPT !.q = [k \in Kinds |-> base.q[k] \o Ids(start[k], off[k])]]
     IN IF engineOk
          THEN /\ pend' = [none |-> FALSE, c |-> withNew, delivered |-> IF msgOk THEN DueOf(C.q) ELSE [k \in Kinds |-> << >>],
                           added |-> [k \in Kinds |-> Ids(start[k], off[k])]]
               /\ nextId' = nextId
          ELSE pend' = None /\ nextId' = nextId          \* the node dies; nothing persists
  /\ round' = 0
  /\ UNCHANGED << C, enq, handed, blocks >>

Commit ==
  /\ ~pend.none
  /\ C' = pend.c
  /\ handed' = [k \in Kinds |-> handed[k] \o pend.delivered[k]]
  /\ enq' = [k \in Kinds |-> enq[k] \o pend.added[k]]
  /\ pend' = None /\ blocks' = blocks + 1
  /\ UNCHANGED << nextId, round >>

Crash == /\ ~pend.none /\ pend' = None /\ UNCHANGED << C, enq, handed, nextId, blocks, round >>

Next ==
  \/ AbandonRound
  \/ \E msgOk \in BOOLEAN, engineOk \in BOOLEAN, add \in NewItemSets : Finalize(msgOk, engineOk, add)
  \/ Commit \/ Crash

Bound == \A k \in Kinds : Len(enq[k]) <= MaxItems

(* C06 *)
HandedIsPrefix == \A k \in Kinds : IsPrefix(handed[k], enq[k])
NothingDropped == pend.none => \A k \in Kinds : enq[k] = handed[k] \o C.q[k]
NoDup == \A k \in Kinds : NoDuplicates(handed[k])
NoncesCount ==
  /\ C.nonce.bridge = Len(handed["hash"]) + Len(handed["deposit"]) + Len(handed["paid"]) + Len(handed["reject"])
  /\ C.nonce.locking = Len(handed["reward"]) + Len(handed["unlock"])
WithinCaps == ~pend.none =>
  /\ Len(pend.delivered["hash"]) <= 1 /\ Len(pend.delivered["deposit"]) <= CapDeposits
  /\ Len(pend.delivered["paid"]) + Len(pend.delivered["reject"]) <= CapWithdrawals
  /\ Len(pend.delivered["reward"]) <= CapRewards /\ Len(pend.delivered["unlock"]) <= CapUnlocks
(* C09 *)
HeadByChildrenOnly == [][C'.head # C.head => (C'.head.number = C.head.number + 1 /\ C'.head.parent = C.head.hash)]_vars
OnlyCommitChangesState == [][C' # C => ~pend.none]_vars
=============================================================================
