--------------------------- MODULE MC_HandoverLive ---------------------------
(* Liveness of the hand-over (C06 "never dropped"): under fair scheduling of successful blocks - a FinalizeBlock whose block   *)
(* message succeeds on a healthy engine, followed by Commit, happens again and again although rounds may be abandoned, block  *)
(* messages may fail, the engine may fault and the node may crash before Commit any number of times in between - every item   *)
(* ever enqueued is eventually handed over, and the queues drain once nothing new arrives.  Heads, beacons and block counters  *)
(* are left out (they grow without bound and play no part in delivery); the number of items is bounded by the enabling         *)
(* condition of the adding step, not by a state constraint, so that the temporal check is sound.                              *)
EXTENDS Handover
CONSTANTS MaxItems, UsedKinds

VARIABLES C, pend, enq, handed
vars == << C, pend, enq, handed >>
None == [none |-> TRUE, good |-> FALSE]

Init ==
  /\ C = [q |-> [k \in Kinds |-> << >>], nonce |-> [bridge |-> 0, locking |-> 0]]
  /\ pend = None /\ enq = [k \in Kinds |-> << >>] /\ handed = [k \in Kinds |-> << >>]

RECURSIVE Ids(_, _)
Ids(n0, n) == IF n = 0 THEN << >> ELSE << n0 >> \o Ids(n0 + 1, n - 1)
Adds == { f \in [UsedKinds -> 0..2] : \A k \in UsedKinds : Len(enq[k]) + f[k] <= MaxItems }

AbandonRound == pend = None /\ UNCHANGED vars

Finalize(msgOk, engineOk, add) ==
  /\ pend = None
  /\ LET base == IF msgOk THEN AfterDelivery(C) ELSE C
         off == [k \in Kinds |-> IF k \in UsedKinds THEN add[k] ELSE 0]
         start == [k \in Kinds |-> Len(enq[k]) + 1]
         withNew == [base EXCEPT !.q = [k \in Kinds |-> base.q[k] \o Ids(start[k], off[k])]]
     IN pend' = IF engineOk
                  THEN [none |-> FALSE, good |-> msgOk, c |-> withNew, delivered |-> IF msgOk THEN DueOf(C.q) ELSE [k \in Kinds |-> << >>],
                        added |-> [k \in Kinds |-> Ids(start[k], off[k])]]
                  ELSE None
  /\ UNCHANGED << C, enq, handed >>

Commit ==
  /\ ~pend.none
  /\ C' = pend.c
  /\ handed' = [k \in Kinds |-> handed[k] \o pend.delivered[k]]
  /\ enq' = [k \in Kinds |-> enq[k] \o pend.added[k]]
  /\ pend' = None

Crash == ~pend.none /\ pend' = None /\ UNCHANGED << C, enq, handed >>

GoodBlock == \E add \in Adds : Finalize(TRUE, TRUE, add)
Next ==
  \/ \E msgOk \in BOOLEAN, engineOk \in BOOLEAN, add \in Adds : Finalize(msgOk, engineOk, add)
  \/ Commit \/ Crash

\* a good block is finalised again and again, and a finalised good block is committed again and again (any number of
\* failing blocks, engine faults and crashes in between)
CommitGood == pend.good /\ Commit
LiveSpec == Init /\ [][Next]_vars /\ SF_vars(GoodBlock) /\ SF_vars(CommitGood) /\ WF_vars(Commit \/ Crash)   \* a finalised block is committed or lost

EverythingHandedOver ==
  \A k \in UsedKinds : \A i \in 1..MaxItems : (Len(enq[k]) >= i) ~> (Len(handed[k]) >= i)
HandedIsPrefix == \A k \in Kinds : IsPrefix(handed[k], enq[k])
=============================================================================
