---------------------------- MODULE RelayerArith ----------------------------
(* The quorum arithmetic of x/relayer, shared by Relayer.tla (TLC) and Proofs_RelayerArith.tla (TLAPS). *)
EXTENDS Integers

Threshold(n) == (2 * (n + 1) + 2) \div 3        \* ceil(2(n+1)/3) for n voters and one proposer
=============================================================================
