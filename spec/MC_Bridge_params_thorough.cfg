CONSTANTS
  MaxDepositTx = 1
  MaxWithdrawalTx = 2
  Network = "regtest"
  Family = "params"
  WdIds = {1}
  MaxSteps = 4
  TaxRates = {0, 1, 9999, 10000, 10001, 2000000000}
  TaxMaxes = {0, 1, 100000000, 100000001}
  MinDeps = {0, 1, 999, 1000, 1001, 2000000000}
  Confs = {0, 1, 2000000000}
  InitSets = {"dusty", "capped"}
INIT InitAll
NEXT Next
CONSTRAINT Bound
INVARIANTS ParamsSafeInv DepositedOnlyGood
VIEW View
CHECK_DEADLOCK FALSE
