---------------------------- MODULE LockingArith ----------------------------
(* Integer arithmetic of x/locking shared by Locking.tla (TLC) and Proofs_LockingArith.tla (TLAPS). *)
EXTENDS Integers

Max(a, b) == IF a > b THEN a ELSE b
Min(a, b) == IF a < b THEN a ELSE b

\* slashing a holding by num/den: the whole amount if the slice truncates to zero
SlashAmt(a, num, den) == LET x == (a * num) \div den IN IF x = 0 THEN a ELSE x

\* reward emission: what one execution block moves from the remaining grant into distribution
EmissionMove(scheduled, remain) == Min(scheduled, remain)

\* a validator's share of a pool before the 18-digit rounding correction: floor(pool * p / P)
FloorShare(pool, p, P) == (pool * p) \div P

\* an unlock releases min(asked, held)
UnlockAmt(asked, held) == Min(asked, held)
=============================================================================
