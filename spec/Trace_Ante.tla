----------------------------- MODULE Trace_Ante -----------------------------
(* Trace validation for C10: every line is one real transaction pushed through one real execution   *)
(* mode of the application; `admitted` is what the application did, `same` (finalize mode, blocks   *)
(* whose case transactions were all refused) says that the resulting app hash equals the one of a   *)
(* replica that executed the block without them.                                                   *)
EXTENDS Ante, Json, TLC
Trace == ndJsonDeserialize("trace.ndjson")
VARIABLE l
Init == l = 1
CaseOf(e) == [mode |-> e.mode, msgs |-> e.msgs, signer |-> e.signer, second |-> e.second, memo |-> e.memo, timeout |-> e.timeout, sigOk |-> e.sigOk, seqOk |-> e.seqOk]
Next == /\ l <= Len(Trace)
        /\ \/ /\ Trace[l].ev = "case"
              /\ Trace[l].admitted = Admit(CaseOf(Trace[l]))
           \/ /\ Trace[l].ev = "block"          \* a finalised block none of whose case transactions was admitted changed nothing
              /\ (~Trace[l].anyAdmitted) => Trace[l].same
           \/ /\ Trace[l].ev = "types"          \* every registered message type has been classified
              /\ Trace[l].unclassified = 0
        /\ l' = l + 1
Reached == PrintT(<<"TRACE_REACHED", TLCGet("stats").diameter - 1, Len(Trace)>>)
=============================================================================
