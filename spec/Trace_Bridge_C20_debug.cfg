CONSTANTS
  MaxDepositTx = 8
  MaxWithdrawalTx = 8
  Network = "regtest"
  Debug = TRUE
  Bind = {"v.deposits", "blockmsg", "params", "queue"}
INIT TInit
NEXT TNext
INVARIANTS ParamsSafeInv CreditedPositive

POSTCONDITION Reached
CHECK_DEADLOCK FALSE
