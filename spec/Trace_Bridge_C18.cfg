CONSTANTS
  MaxDepositTx = 8
  MaxWithdrawalTx = 8
  Network = "regtest"
  Debug = FALSE
  Bind = {"v.hashes", "v.pubkey", "v.deposits", "v.process", "v.replace", "v.finalize", "v.approve", "blockmsg", "deposits", "withdrawals", "refunds", "queue", "params"}
INIT TInit
NEXT TNext
INVARIANTS CreditedOnce CreditedPositive NotifiedOnce ParamsSafeInv QueueOk
PROPERTIES EdgesOk TerminalAbsorbing HashesAppendOnly
POSTCONDITION Reached
CHECK_DEADLOCK FALSE
