CONSTANTS
  MaxN = 3
  OutFile = "cases.ndjson"
  Members = {0,1,2,3,4,5,6,7}
  Period = 10
  AcceptTimeout = 5
INIT Init
NEXT Next
INVARIANTS GenuineQuorum HonestQuorumAccepted HintIsVerdict PayloadBound
POSTCONDITION WriteCases
CHECK_DEADLOCK FALSE
