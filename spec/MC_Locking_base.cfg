CONSTANTS
  Vals = {1,2,3}
  Tokens = {1,2}
  PowerReduction = 1
  UnlockDur = 1
  ExitDur = 2
  JailDur = 1
  MaxVals = 2
  Window = 2
  MaxMissed = 1
  DSNum = 1
  DSDen = 2
  DTNum = 1
  DTDen = 4
  Halving = 2
  InitialReward = 4
  MaxAgeBlocks = 3
  MaxAgeTicks = 3
  MaxRewardTx = 1
  MaxUnlockTx = 1
  MaxHeight = 4
  MaxTime = 4
  Amounts = {0,1,2}
  Weights = {0,2}
  Thresholds = {0,2}
  WithVotes = TRUE
  WithEvidence = TRUE
  WithRewards = FALSE
  WithTokens = TRUE
  WithUnlock = TRUE
  WithCreate = TRUE
  Fees = {0}
  GenesisLock = 3
INIT Init
NEXT Next
CONSTRAINT Bound
INVARIANTS NeverHalts ReimportFixpoint Consistent TopK CometIsRecord FundsConserved UnlockBounded DelayRespected DeliveredOnce
PROPERTIES TombstoneForever JailOnlyByDowntime UnjailOnlyAfter
VIEW View
CHECK_DEADLOCK FALSE
