------------------------- MODULE Proofs_BridgeArith -------------------------
(***************************************************************************)
(* Unbounded lemmas about the arithmetic of x/bitcoin, checked by TLAPS     *)
(* (C03 "tax always smaller than the value", C20 "no parameter history can  *)
(* make a deposit's tax reach its value or a credited amount zero").  TLC   *)
(* checks the same statements over boundary values only; here they hold for *)
(* EVERY value and EVERY parameter record.  The definitions are the ones    *)
(* Bridge.tla uses (module BridgeArith).                                    *)
(***************************************************************************)
EXTENDS BridgeArith, TLAPS

Params == [taxRate : Nat, maxTax : Nat, minDeposit : Nat, conf : Nat]

LEMMA DivBound == \A v \in Nat : (v \div 10000) * 10000 <= v /\ (v \div 10000) \in Nat
  OBVIOUS

LEMMA MulMono == \A q \in Nat, r \in Nat : r <= 9999 => q * r <= q * 9999
  OBVIOUS

THEOREM TaxBelowValue ==
  \A v \in Nat, p \in Params : (v > 0 /\ p.taxRate < MaxTaxBP) => (TaxOf(v, p) < v /\ TaxOf(v, p) >= 0)
<1> SUFFICES ASSUME NEW v \in Nat, NEW p \in Params, v > 0, p.taxRate < MaxTaxBP
             PROVE TaxOf(v, p) < v /\ TaxOf(v, p) >= 0
    OBVIOUS
<1>0. p.taxRate \in Nat /\ p.maxTax \in Nat
    BY DEF Params
<1>1. CASE ~(p.taxRate > 0 /\ v > MaxTaxBP)
    BY <1>1 DEF TaxOf, MaxTaxBP
<1>2. CASE p.taxRate > 0 /\ v > MaxTaxBP
  <2> DEFINE q == v \div 10000
  <2> DEFINE t == q * p.taxRate
  <2>1. q \in Nat /\ q * 10000 <= v
      BY DivBound
  <2>2. q >= 1
      BY <1>2 DEF MaxTaxBP
  <2>3. t <= q * 9999 /\ t \in Nat
      BY <2>1, <1>0, MulMono DEF MaxTaxBP
  <2>4. q * 9999 < q * 10000
      BY <2>1, <2>2
  <2>5. t < v /\ t >= 0
      BY <2>1, <2>3, <2>4
  <2>6. TaxOf(v, p) = IF p.maxTax > 0 /\ t > p.maxTax THEN p.maxTax ELSE t
      BY <1>2 DEF TaxOf, MaxTaxBP
  <2> QED BY <2>5, <2>6, <1>0
<1> QED BY <1>1, <1>2

LEMMA TaxIsNat == \A v \in Nat, p \in Params : TaxOf(v, p) \in Nat
<1> SUFFICES ASSUME NEW v \in Nat, NEW p \in Params PROVE TaxOf(v, p) \in Nat
    OBVIOUS
<1>0. p.taxRate \in Nat /\ p.maxTax \in Nat
    BY DEF Params
<1>1. (v \div MaxTaxBP) \in Nat
    BY DivBound DEF MaxTaxBP
<1>2. (v \div MaxTaxBP) * p.taxRate \in Nat
    BY <1>0, <1>1
<1> QED BY <1>0, <1>2 DEF TaxOf

(* C20: under safe parameters an accepted deposit (value >= minimum >= dust) is credited a positive amount *)
THEOREM CreditedPositive ==
  \A v \in Nat, p \in Params : (ParamsSafe(p) /\ v >= p.minDeposit) => (v - TaxOf(v, p) > 0 /\ v >= Dust)
<1> SUFFICES ASSUME NEW v \in Nat, NEW p \in Params, ParamsSafe(p), v >= p.minDeposit
             PROVE v - TaxOf(v, p) > 0 /\ v >= Dust
    OBVIOUS
<1>1. p.minDeposit \in Nat /\ p.minDeposit >= Dust /\ p.taxRate < MaxTaxBP
    BY DEF ParamsSafe, Params
<1>2. v > 0 /\ v >= Dust
    BY <1>1 DEF Dust
<1>3. TaxOf(v, p) < v /\ TaxOf(v, p) \in Nat
    BY <1>1, <1>2, TaxBelowValue, TaxIsNat
<1> QED BY <1>2, <1>3

(* C20: a tax request that passes the pair check keeps the rate below 100 % *)
THEOREM TaxPairSafe == \A rate \in Nat, max \in Nat : TaxPairOk(rate, max) => rate < MaxTaxBP
  BY DEF TaxPairOk, MaxTaxBP

(* C20: the tax never exceeds a positive cap *)
THEOREM TaxWithinCap ==
  \A v \in Nat, p \in Params : p.maxTax > 0 => TaxOf(v, p) <= p.maxTax
<1> SUFFICES ASSUME NEW v \in Nat, NEW p \in Params, p.maxTax > 0 PROVE TaxOf(v, p) <= p.maxTax
    OBVIOUS
<1>0. p.taxRate \in Nat /\ p.maxTax \in Nat
    BY DEF Params
<1>1. CASE ~(p.taxRate > 0 /\ v > MaxTaxBP)
    BY <1>1, <1>0 DEF TaxOf
<1>2. CASE p.taxRate > 0 /\ v > MaxTaxBP
  <2> DEFINE t == (v \div MaxTaxBP) * p.taxRate
  <2>1. TaxOf(v, p) = IF p.maxTax > 0 /\ t > p.maxTax THEN p.maxTax ELSE t
      BY <1>2 DEF TaxOf
  <2>2. (v \div MaxTaxBP) \in Nat
      BY DivBound DEF MaxTaxBP
  <2>3. t \in Nat
      BY <2>2, <1>0
  <2> QED BY <2>1, <2>3, <1>0
<1> QED BY <1>1, <1>2
=============================================================================
