---------------------------- MODULE Trace_Merkle ----------------------------
(* Trace validation for C04: every line is one real call of VerifyMerkelProof on a concrete *)
(* instantiation of an enumerated case; the line is explained iff the implementation's      *)
(* verdict equals the specification's.                                                     *)
EXTENDS Merkle, Json
Trace == ndJsonDeserialize("trace.ndjson")
VARIABLE l
Init == l = 1
Next == /\ l <= Len(Trace)
        /\ CaseVerdict(Trace[l]) = Trace[l].impl
        /\ Trace[l].again = Trace[l].impl      \* the same question after the genuine proof was verified: same answer
        /\ l' = l + 1
Reached == PrintT(<<"TRACE_REACHED", TLCGet("stats").diameter - 1, Len(Trace)>>)
=============================================================================
