---------------------------- MODULE Trace_Robust ----------------------------
(* C19: malformed transactions, proposals and execution-layer request lists applied at states sampled  *)
(* along real histories.                                                                               *)
(*   input   one malformed input offered to CheckTx / ProcessProposal / FinalizeBlock: the call        *)
(*           returns normally (applied or rejected); a garbage proposal is never accepted              *)
(*   block   a finalised block: if none of its malformed transactions was applied, the app hash equals *)
(*           the one of a reference execution of the same block without them (failures change nothing) *)
(*   halt    FinalizeBlock failed: never explained (block processing must not fail)                    *)
(*   begin, el, vote, ... the events of the relayer-membership histories (arbitrary decodable add /   *)
(*           remove request lists over many blocks and elections, see Trace_Relayer): here they only  *)
(*           pass; what counts is that none of these histories contains a `halt`                       *)
(*   (others) the events of bridge and locking histories under heavy load (backlogs beyond every      *)
(*           per-block cap): they only pass too; a `halt` or a dead node is what is looked for         *)
(* A crash of the node kills the driver process; the check reports it from the input journal.          *)
EXTENDS Naturals, Sequences, Json, TLC
Trace == ndJsonDeserialize("trace.ndjson")
VARIABLE l
Init == l = 1
HistoryEvents == {"begin", "el", "vote", "verify", "newvoter", "accept", "nonvoted", "other", "end", "idle", "txbegin", "txend", "probe"}
Ev == Trace[l]
Next == /\ l <= Len(Trace)
        /\ \/ Ev.ev \in {"init", "unbuildable"} \cup HistoryEvents
           \/ Ev.ev \notin {"input", "block", "halt"}      \* events of the heavy-load bridge / locking histories: they only pass
           \/ /\ Ev.ev = "input"
              /\ ~Ev.errored
              /\ Ev.kind = "proposal/garbage" => Ev.code = 1
           \/ /\ Ev.ev = "block"
              /\ ~Ev.anyApplied => Ev.same
        /\ l' = l + 1
Reached == PrintT(<<"TRACE_REACHED", TLCGet("stats").diameter - 1, Len(Trace)>>)
=============================================================================
