CONSTANTS
  MaxDepositTx = 8
  MaxWithdrawalTx = 8
  Network = "regtest"
  Debug = FALSE
  Bind = {"queue", "blockmsg"}
INIT TInit
NEXT TNext
INVARIANTS QueueOk
PROPERTIES HashesAppendOnly
POSTCONDITION Reached
CHECK_DEADLOCK FALSE
