------------------------------- MODULE Merkle -------------------------------
(***************************************************************************)
(* Bitcoin Merkle trees and SPV inclusion proofs over an IDEAL hash.       *)
(*                                                                         *)
(* Hash values are strings; the pair hash H(a,b) is an injective string    *)
(* constructor, so "two different inputs never collide" holds by           *)
(* construction (second-preimage resistance is the stated assumption).     *)
(*                                                                         *)
(* Verify is the specification of x/bitcoin/types.VerifyMerkelProof as     *)
(* property C04 words it: fold the leaf up the path choosing left/right    *)
(* from the bits of the position, compare with the root, and require the   *)
(* position to be smaller than 2^(path length); malformed sizes reject.    *)
(***************************************************************************)
EXTENDS Naturals, Sequences, TLC

H(a, b) == "(" \o a \o "," \o b \o ")"
Leaf(i) == "t" \o ToString(i)          \* txid of the i-th transaction (0-based), all distinct
Fresh   == "z"                         \* a 32-byte value that occurs nowhere in any tree

Leaves(n) == [k \in 1..n |-> Leaf(k - 1)]

RECURSIVE Pow2(_)
Pow2(k) == IF k = 0 THEN 1 ELSE 2 * Pow2(k - 1)

(* One level up, duplicating the last node of an odd level (Bitcoin's rule). *)
RECURSIVE LevelUp(_)
LevelUp(s) ==
  IF Len(s) = 0 THEN << >>
  ELSE IF Len(s) = 1 THEN << H(s[1], s[1]) >>
  ELSE << H(s[1], s[2]) >> \o LevelUp(SubSeq(s, 3, Len(s)))

RECURSIVE Root(_)
Root(s) == IF Len(s) = 1 THEN s[1] ELSE Root(LevelUp(s))

RECURSIVE Depth(_)
Depth(s) == IF Len(s) = 1 THEN 0 ELSE 1 + Depth(LevelUp(s))

(* Genuine inclusion path of the node at 0-based index i of level s. *)
RECURSIVE Path(_, _)
Path(s, i) ==
  IF Len(s) = 1 THEN << >>
  ELSE LET sibIdx == IF i % 2 = 0 THEN i + 1 ELSE i - 1
           sib    == IF sibIdx + 1 <= Len(s) THEN s[sibIdx + 1] ELSE s[i + 1]
       IN << sib >> \o Path(LevelUp(s), i \div 2)

(* The duplication rule implicitly builds a perfect tree of depth d over n leaves.  *)
(* Src(d, n, p) is the index of the real leaf that position p of that perfect tree  *)
(* carries (positions < n carry themselves; positions under duplicated nodes carry  *)
(* copies).  A leaf i "occupies" exactly the positions p with Src(d, n, p) = i.     *)
RECURSIVE Src(_, _, _)
Src(d, n, p) ==
  IF d = 0 THEN 0
  ELSE LET q == Src(d - 1, (n + 1) \div 2, p \div 2)
           c == 2 * q + (p % 2)
       IN IF c >= n THEN n - 1 ELSE c

Occupies(n, i, p) == p < Pow2(Depth(Leaves(n))) /\ Src(Depth(Leaves(n)), n, p) = i

(* Fold a leaf up a path; returns <<node, remaining position>>. *)
RECURSIVE Fold(_, _, _)
Fold(cur, pos, path) ==
  IF path = << >> THEN << cur, pos >>
  ELSE Fold(IF pos % 2 = 0 THEN H(cur, Head(path)) ELSE H(Head(path), cur),
            pos \div 2, Tail(path))

(* The specification of inclusion verification (property C04).              *)
(* sizesOk: leaf and root are 32 bytes and the path is a whole number of    *)
(* 32-byte nodes.                                                           *)
Verify(leaf, pos, path, root, sizesOk) ==
  /\ sizesOk
  /\ LET r == Fold(leaf, pos, path) IN r[1] = root /\ r[2] = 0

(***************************************************************************)
(* Path mutations, shared by the case generator (MC_Merkle) and the trace   *)
(* specification (Trace_Merkle), mirrored one-to-one by the Go replayer.    *)
(***************************************************************************)
MutKinds == {"genuine", "trunc", "dropfirst", "extendFresh", "extendRoot", "prependFresh",
             "swap", "replaceFresh", "otherLeaf", "ragged", "leafSize", "rootSize", "wrongRoot"}

SwapAt(p, k) == [x \in 1..Len(p) |-> IF x = k THEN p[k + 1] ELSE IF x = k + 1 THEN p[k] ELSE p[x]]

(* arg is a small natural whose meaning depends on the kind. *)
Mutate(n, i, kind, arg) ==
  LET g == Path(Leaves(n), i) IN
  CASE kind = "genuine"      -> g
    [] kind = "trunc"        -> IF arg <= Len(g) THEN SubSeq(g, 1, Len(g) - arg) ELSE << >>
    [] kind = "dropfirst"    -> IF Len(g) > 0 THEN Tail(g) ELSE g
    [] kind = "extendFresh"  -> Append(g, Fresh)
    [] kind = "extendRoot"   -> Append(g, Root(Leaves(n)))
    [] kind = "prependFresh" -> << Fresh >> \o g
    [] kind = "swap"         -> IF arg >= 1 /\ arg + 1 <= Len(g) THEN SwapAt(g, arg) ELSE g
    [] kind = "replaceFresh" -> IF arg >= 1 /\ arg <= Len(g) THEN [g EXCEPT ![arg] = Fresh] ELSE g
    [] kind = "otherLeaf"    -> Path(Leaves(n), arg % n)
    [] kind = "ragged"       -> g
    [] kind = "leafSize"     -> g
    [] kind = "rootSize"     -> g
    [] kind = "wrongRoot"    -> g

SizesOk(kind)   == kind \notin {"ragged", "leafSize", "rootSize"}
RootOf(n, kind) == IF kind = "wrongRoot" THEN Fresh ELSE Root(Leaves(n))

HiUnit == 1048576   \* 2^20: stands for "some bit above every path length explored" (the replayer uses bit 31, 24 or 20)

(* Verdict of the specification for one enumerated case. *)
CaseVerdict(c) ==
  Verify(Leaf(c.i), c.p + c.hi * HiUnit, Mutate(c.n, c.i, c.kind, c.arg), RootOf(c.n, c.kind), SizesOk(c.kind))
=============================================================================
