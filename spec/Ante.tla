-------------------------------- MODULE Ante --------------------------------
(***************************************************************************)
(* Admission of transactions (app/ante.go: the goat guard followed by the   *)
(* standard signature and sequence checks) as a decision table.             *)
(*                                                                         *)
(* A case c:                                                                *)
(*   mode     check | recheck | prepare | process | finalize | simulate     *)
(*   msgs     Seq of message classes: bridge | relayer | block | authAdmin  *)
(*            | consAdmin | other                                           *)
(*   signer   proposer (the relayer proposer) | voter | validator | stranger*)
(*            (no account) ; every message of the tx names this one signer   *)
(*   second   a second, different signer is also required                    *)
(*   memo     the transaction has a memo                                     *)
(*   timeout  zero | past | now | future  (timeout height vs block height)   *)
(*   sigOk, seqOk                                                            *)
(***************************************************************************)
EXTENDS Naturals, Sequences, FiniteSets

Modes == {"check", "recheck", "prepare", "process", "finalize", "simulate"}
MsgClasses == {"bridge", "relayer", "block", "authAdmin", "consAdmin", "other"}
Signers == {"proposer", "voter", "validator", "stranger"}
Timeouts == {"zero", "past", "now", "future"}

RelayerMsg(m) == m \in {"bridge", "relayer"}

MsgAllowed(mode, m, signer, timeout) ==
  CASE mode \in {"check", "recheck", "prepare"} -> RelayerMsg(m) /\ signer = "proposer"
    [] mode \in {"process", "finalize"}        -> (m = "block" /\ timeout = "now") \/ (RelayerMsg(m) /\ signer = "proposer")
    [] OTHER                                   -> TRUE       \* simulate: the guard does not restrict; nothing is persisted

\* the guard, in code order, then signature verification
Admit(c) ==
  /\ ~c.memo
  /\ ~c.second
  /\ c.timeout # "past"
  /\ \A i \in DOMAIN c.msgs : MsgAllowed(c.mode, c.msgs[i], c.signer, c.timeout)
  /\ c.signer # "stranger"          \* the signer's account must exist
  /\ c.seqOk
  /\ c.sigOk \/ c.mode \in {"simulate", "recheck"}
        \* simulation and re-checks (of transactions that already passed a check) do not verify signatures

\* may the transaction's effects persist?  (simulate and the check modes never commit anything)
Persists(c) == c.mode = "finalize" /\ Admit(c)

(* C10 as the statement words it *)
C10(c) ==
  (Admit(c) /\ c.mode \notin {"simulate", "recheck"}) =>
     /\ ~c.memo /\ ~c.second /\ c.timeout # "past" /\ c.sigOk /\ c.seqOk
     /\ \/ \A i \in DOMAIN c.msgs : RelayerMsg(c.msgs[i]) /\ c.signer = "proposer"
        \/ /\ c.mode \in {"process", "finalize"}
           /\ \E i \in DOMAIN c.msgs : c.msgs[i] = "block"
           /\ c.timeout = "now"
           /\ \A i \in DOMAIN c.msgs : c.msgs[i] = "block" \/ (RelayerMsg(c.msgs[i]) /\ c.signer = "proposer")
NoAdminEver(c) == (Admit(c) /\ c.mode # "simulate") => \A i \in DOMAIN c.msgs : c.msgs[i] \notin {"authAdmin", "consAdmin", "other"}
=============================================================================
