CONSTANTS
  MaxDepositTx = 8
  MaxWithdrawalTx = 8
  Network = "regtest"
  Debug = FALSE
  Bind = {"v.deposits", "v.finalize"}
INIT TInit
NEXT TNext
POSTCONDITION Reached
CHECK_DEADLOCK FALSE
