CONSTANTS
  MaxDepositTx = 1
  MaxWithdrawalTx = 2
  Network = "regtest"
  Family = "deposits"
  WdIds = {1}
  MaxSteps = 4
  TaxRates = {0, 20, 9999, 10000}
  TaxMaxes = {0, 30}
  MinDeps = {0}
  Confs = {0}
  InitSets = {"plain", "taxed"}
INIT InitAll
NEXT Next
CONSTRAINT Bound
INVARIANTS CreditedOnce DepositedOnlyGood ParamsSafeInv QueueOk
PROPERTIES HashesAppendOnly
VIEW View
CHECK_DEADLOCK FALSE
