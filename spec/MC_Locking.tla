----------------------------- MODULE MC_Locking -----------------------------
(* Bounded exhaustive model of x/locking: one TLC step is one block                              *)
(*   BeginBlock(votes of the current set with any absences, optional evidence)                   *)
(*   ; execution-block message with one request group drawn from a small universe                *)
(*   ; EndBlock, whose updates are applied to CometBFT's set by CometBFT's own rules.            *)
(* Feature switches (constants) cut the model per property family.                              *)
EXTENDS Locking
CONSTANTS
  MaxHeight, MaxTime, Amounts, Weights, Thresholds,
  WithVotes, WithEvidence, WithRewards, WithTokens, WithUnlock, WithCreate, Fees, GenesisLock

VARIABLES lk, now, height, comet, hist, halted, phase
vars == << lk, now, height, comet, hist, halted, phase >>

Bedrock == 1
T1 == CHOOSE t \in Tokens : \A u \in Tokens : t <= u

Init ==
  /\ now = 0 /\ height = 1 /\ halted = FALSE /\ phase = "begin"
  /\ lk = [ val |-> [v \in Vals |-> IF v = Bedrock THEN [NoVal EXCEPT !.exists = TRUE, !.status = "Active", !.power = PowerOf(1, GenesisLock),
                                                                     !.locking = [t \in Tokens |-> IF t = T1 THEN GenesisLock ELSE 0]] ELSE NoVal],
            tokens |-> [t \in Tokens |-> [exists |-> TRUE, weight |-> 1, threshold |-> 0]],
            thr |-> [t \in Tokens |-> 0],
            lockIdx |-> [k \in Tokens \X Vals |-> IF k[2] = Bedrock /\ k[1] = T1 THEN GenesisLock ELSE Absent],
            ranking |-> { <<PowerOf(1, GenesisLock), Bedrock>> },
            valSet |-> [v \in Vals |-> IF v = Bedrock THEN PowerOf(1, GenesisLock) ELSE Absent],
            slashed |-> [t \in Tokens |-> 0], pool |-> [goat |-> 0, gas |-> 0, remain |-> 0],
            unlockQ |-> << >>, q |-> [rewards |-> << >>, unlocks |-> << >>], nonce |-> 0, hasAcc |-> {Bedrock}, err |-> FALSE ]
  /\ comet = [v \in Vals |-> IF v = Bedrock THEN PowerOf(1, GenesisLock) ELSE Absent]
  /\ hist = [locked |-> [t \in Tokens |-> IF t = T1 THEN GenesisLock ELSE 0], released |-> [t \in Tokens |-> 0],
             granted |-> 0, fees |-> 0, claimed |-> 0, requested |-> << >>, delivered |-> << >>]

NoReq == [gas |-> << 0 >>, grants |-> << >>, weights |-> << >>, thresholds |-> << >>, creates |-> << >>, locks |-> << >>, unlocks |-> << >>, claims |-> << >>]
Others == Vals \ {Bedrock}

ReqUniverse ==
  { NoReq }
  \cup (IF WithCreate THEN { [NoReq EXCEPT !.creates = << [v |-> v, addrOk |-> TRUE] >>] : v \in Others } ELSE {})
  \cup { [NoReq EXCEPT !.locks = << [v |-> v, t |-> t, amt |-> a] >>] : v \in Others, t \in Tokens, a \in Amounts }
  \cup { [NoReq EXCEPT !.locks = << [v |-> v, t |-> t, amt |-> a], [v |-> w, t |-> t, amt |-> a] >>] : v \in Others, w \in Others, t \in Tokens, a \in Amounts \ {0} }
  \cup (IF WithUnlock THEN { [NoReq EXCEPT !.unlocks = << [id |-> 0, v |-> v, t |-> t, amt |-> a] >>] : v \in Others, t \in Tokens, a \in Amounts } ELSE {})
  \cup (IF WithTokens THEN { [NoReq EXCEPT !.weights = << [t |-> t, w |-> w] >>] : t \in Tokens \ {T1}, w \in Weights } ELSE {})
  \cup (IF WithTokens THEN { [NoReq EXCEPT !.thresholds = << [t |-> t, th |-> th] >>] : t \in Tokens, th \in Thresholds } ELSE {})
  \cup (IF WithRewards THEN { [NoReq EXCEPT !.claims = << [id |-> 0, v |-> v] >>] : v \in Vals } ELSE {})
  \cup (IF WithRewards THEN { [NoReq EXCEPT !.grants = << 3 >>] } ELSE {})

FreshIds(r, n) == [r EXCEPT !.unlocks = [i \in 1..Len(@) |-> [@[i] EXCEPT !.id = n + i]], !.claims = [i \in 1..Len(@) |-> [@[i] EXCEPT !.id = n + i]]]

MembersOf(c) == { v \in Vals : c[v] # Absent }
SortedVals(S) == LET RECURSIVE Go(_)
                     Go(T) == IF T = {} THEN << >> ELSE LET x == CHOOSE y \in T : \A z \in T : y <= z IN << x >> \o Go(T \ {x})
                 IN Go(S)

\* One block is three TLC steps (begin -> msg -> end) so that equal intermediate states are explored once.
BeginStep ==
  /\ phase = "begin"
  /\ \E dt \in 0..2, absent \in SUBSET (MembersOf(comet) \ {Bedrock}), ev \in {0} \cup (IF WithEvidence THEN Others ELSE {}) :
       LET t1 == now + dt
           ms == SortedVals(MembersOf(comet))
           votes == [i \in 1..Len(ms) |-> [v |-> ms[i], power |-> comet[ms[i]], absent |-> WithVotes /\ ms[i] \in absent]]
           evid == IF ev = 0 \/ ~lk.val[ev].exists THEN << >> ELSE << [v |-> ev, h |-> height, t |-> t1, known |-> TRUE] >>
           S1 == Begin(lk, IF height >= 2 THEN votes ELSE << >>, evid, height, t1)
       IN /\ ~WithVotes => absent = {}
          /\ now' = t1
          /\ halted' = (halted \/ S1.err)
          /\ lk' = [S1 EXCEPT !.err = FALSE]
  /\ phase' = "msg"
  /\ UNCHANGED << height, comet, hist >>

MsgStep ==
  /\ phase = "msg"
  /\ \E r0 \in ReqUniverse, fee \in Fees :
       LET nid == height * 10
           r == [FreshIds(r0, nid) EXCEPT !.gas = << fee >>]
           S1 == lk
           t1 == now
           S2 == BlockMsg(S1, r, height, t1)
           ok == ~S2.err
       IN
       /\ lk' = IF ok THEN S2 ELSE S1
       /\ hist' = IF ~ok THEN hist ELSE
         [hist EXCEPT
            !.locked = [t \in Tokens |-> @[t] + SeqSum([i \in 1..Len(r.locks) |-> IF r.locks[i].t = t THEN r.locks[i].amt ELSE 0])],
            !.released = [t \in Tokens |-> @[t] + SumOver({ i \in 1..Len(S2.unlockQ) : \E j \in 1..Len(r.unlocks) : r.unlocks[j].id = S2.unlockQ[i].id },
                                                          LAMBDA i : IF S2.unlockQ[i].token = t THEN S2.unlockQ[i].amount ELSE 0)],
            !.granted = @ + SeqSum(r.grants), !.fees = @ + fee,
            !.claimed = @ + SumOver({ i \in 1..Len(S2.q.rewards) : i > Len(Deliver(S1).q.rewards) }, LAMBDA i : S2.q.rewards[i].goat + S2.q.rewards[i].gas),
            !.delivered = @ \o [i \in 1..Len(DueUnlocks(S1)) |-> [id |-> DueUnlocks(S1)[i].id, at |-> t1]],
            !.requested = @ \o [i \in 1..Len(r.unlocks) |->
                                  LET e == S2.unlockQ[CHOOSE j \in 1..Len(S2.unlockQ) : S2.unlockQ[j].id = r.unlocks[i].id]
                                  IN [id |-> e.id, at |-> t1, due |-> e.time, amount |-> e.amount, asked |-> r.unlocks[i].amt]] ]
  /\ phase' = "end"
  /\ UNCHANGED << now, height, comet, halted >>

EndStep ==
  /\ phase = "end"
  /\ LET w == End(lk, now) IN
       /\ halted' = (halted \/ w[1].err \/ ~CometAccepts(comet, w[2]))
       /\ lk' = [w[1] EXCEPT !.err = FALSE]
       /\ comet' = IF CometAccepts(comet, w[2]) THEN CometApply(comet, w[2]) ELSE comet
  /\ phase' = "begin"
  /\ height' = height + 1
  /\ UNCHANGED << now, hist >>

Next == BeginStep \/ MsgStep \/ EndStep
Bound == height <= MaxHeight /\ now <= MaxTime

NeverHalts == ~halted
Consistent == RankingConsistent(lk) /\ IndexConsistent(lk) /\ PunishedHaveNoPower(lk) /\ NonNegative(lk)
TopK == phase = "begin" => SetIsTopK(lk)
CometIsRecord == phase = "begin" => \A v \in Vals : comet[v] = lk.valSet[v]
FundsConserved == \A t \in Tokens : hist.locked[t] = Held(lk, t) + lk.slashed[t] + hist.released[t]
RewardsConserved == hist.granted + hist.fees = lk.pool.goat + lk.pool.gas + lk.pool.remain + Accrued(lk) + hist.claimed
UnlockBounded == \A i \in 1..Len(hist.requested) : hist.requested[i].amount <= hist.requested[i].asked
DelayRespected == \A i \in 1..Len(hist.delivered) : \E j \in 1..Len(hist.requested) :
                      hist.requested[j].id = hist.delivered[i].id /\ hist.delivered[i].at >= hist.requested[j].due
DeliveredOnce == \A i, j \in 1..Len(hist.delivered) : i # j => hist.delivered[i].id # hist.delivered[j].id
TombstoneForever == [][\A v \in Vals : lk.val[v].status = "Tombstoned" => lk'.val[v].status = "Tombstoned"]_vars
JailOnlyByDowntime == [][\A v \in Vals : (lk.val[v].status # "Downgrade" /\ lk'.val[v].status = "Downgrade") => lk.val[v].status = "Active"]_vars
UnjailOnlyAfter == [][\A v \in Vals : (lk.val[v].status = "Downgrade" /\ lk'.val[v].status \in {"Pending", "Active"}) =>
                          (now' > lk.val[v].jailedUntil /\ AllGTE(lk'.val[v].locking, lk'.thr))]_vars

\* C18: at every block boundary the indices and queues rebuilt from the validator / token records by export ; InitGenesis
\* are exactly the incrementally maintained ones
ReimportFixpoint == phase = "begin" => Reimport(lk) = lk

\* observation variables do not distinguish states
View == << lk, now, height, comet, halted, phase, hist.locked, hist.released, hist.granted + hist.fees - hist.claimed >>
=============================================================================
