------------------------------ MODULE MC_Voted ------------------------------
(* Exhaustive case table for C01 (quorum verification of voted proposals).                      *)
(* State: a group of n voters (members 2..n+1) and proposer 1, sequence 3, epoch 2.             *)
(* Family F1: every bitmap over positions 0..n+1 (two positions lie beyond the voter list) x    *)
(*            every subset of {outsider 0, proposer 1, voters} that actually signed.            *)
(* Family F2: every genuine quorum x every single-field corruption x every action kind.        *)
(* Family F3: payload binding.  For each of the five voted message types, at the smallest and    *)
(*            largest item counts the message format allows, an honest full quorum signs the     *)
(*            message; then ONE field of the message is changed (or none) and the message is     *)
(*            presented for verification.  Different contents are different payloads, so only    *)
(*            the unchanged message may be accepted: the signed bytes bind every field.          *)
EXTENDS Relayer, Json, SequencesExt
CONSTANTS MaxN, OutFile
VARIABLE c

Kinds == {"NewBlockHashes", "NewPubkey", "NewConsolidation"}
DocMuts == {"none", "chain", "seqPlus", "seqMinus", "epochPlus", "epochMinus", "otherKind", "otherProposer", "otherPayload",
            "msgSeqPlus", "msgSeqMinus", "msgEpochPlus", "msgEpochMinus", "pfVoter", "pfOutsider", "badSig"}

GroupOf(n) == [k \in 1..n |-> k + 1]
Marks(n) == SUBSET (0..(n + 1))
Signers(n) == SUBSET (0..(n + 1))
KeysOf(n, marks) == {1} \cup { j + 2 : j \in { x \in marks : x < n } }
GenuineQuorums(n) == { mk \in SUBSET (0..(n - 1)) : Cardinality(mk) + 1 >= Threshold(n) }

F1 == UNION { { [n |-> n, kind |-> "NewBlockHashes", marks |-> mk, signers |-> sg, mut |-> "none"] :
                 mk \in Marks(n), sg \in Signers(n) } : n \in 0..MaxN }
F2 == UNION { { [n |-> n, kind |-> kd, marks |-> mk, signers |-> KeysOf(n, mk), mut |-> mu] :
                 mk \in GenuineQuorums(n), kd \in Kinds, mu \in DocMuts } : n \in 0..MaxN }
BindKinds == {"NewBlockHashes", "NewPubkey", "NewConsolidation", "ProcessWithdrawal", "ReplaceWithdrawal"}
SizesOf(kd) == CASE kd = "NewBlockHashes" -> {1, 2, 15, 16}
                 [] kd = "ProcessWithdrawal" -> {1, 2, 31, 32}
                 [] OTHER -> {1}
\* "swap" / "reverse": the same items in another ORDER are another payload (for sizes >= 2; a no-op change is skipped by the driver);
\* "rechunk": the same BYTES cut into items of other sizes (48 + 16 instead of 32 + 32) are another payload too
FieldsOf(kd) == CASE kd = "NewBlockHashes" -> {"start", "hashFirst", "hashLast", "dropLast", "append", "swap", "reverse", "rechunk"}
                  [] kd = "NewPubkey" -> {"key"}
                  [] kd = "NewConsolidation" -> {"tx"}
                  [] kd = "ProcessWithdrawal" -> {"idFirst", "idLast", "dropId", "appendId", "tx", "fee", "swap", "reverse"}
                  [] kd = "ReplaceWithdrawal" -> {"pid", "tx", "fee"}
F3 == UNION { { [n |-> 2, kind |-> kd, marks |-> {0, 1}, signers |-> {1, 2, 3}, mut |-> IF fd = "none" THEN "none" ELSE "otherPayload",
                 size |-> sz, field |-> fd] : sz \in SizesOf(kd), fd \in FieldsOf(kd) \cup {"none"} } : kd \in BindKinds }
Plain(x) == [n |-> x.n, kind |-> x.kind, marks |-> x.marks, signers |-> x.signers, mut |-> x.mut, size |-> 0, field |-> "none"]
Cases == { Plain(x) : x \in F1 \cup F2 } \cup (IF MaxN >= 2 THEN F3 ELSE {})

\* the abstract vote message of a case, relative to the current relayer state
MsgOf(x) ==
  LET base == CurrentDoc(x.kind, "payload")
      doc == CASE x.mut = "chain"         -> [base EXCEPT !.chain = "other"]
               [] x.mut = "seqPlus"       -> [base EXCEPT !.seq = @ + 1]
               [] x.mut = "seqMinus"      -> [base EXCEPT !.seq = @ - 1]
               [] x.mut = "epochPlus"     -> [base EXCEPT !.epoch = @ + 1]
               [] x.mut = "epochMinus"    -> [base EXCEPT !.epoch = @ - 1]
               [] x.mut = "otherKind"     -> [base EXCEPT !.kind = "Other"]
               [] x.mut = "otherProposer" -> [base EXCEPT !.proposer = 0]
               [] x.mut = "otherPayload"  -> [base EXCEPT !.payload = "other"]
               [] OTHER                   -> base
  IN [ pf     |-> CASE x.mut = "pfVoter" -> (IF Len(voters) > 0 THEN voters[1] ELSE 0) [] x.mut = "pfOutsider" -> 0 [] OTHER -> proposer,
       mseq   |-> CASE x.mut = "msgSeqPlus" -> seq + 1 [] x.mut = "msgSeqMinus" -> seq - 1 [] OTHER -> seq,
       mepoch |-> CASE x.mut = "msgEpochPlus" -> epoch + 1 [] x.mut = "msgEpochMinus" -> epoch - 1 [] OTHER -> epoch,
       marks  |-> x.marks, signers |-> x.signers, doc |-> doc, sigOk |-> x.mut # "badSig" ]

Verdict(x) == QuorumOk(MsgOf(x), x.kind, "payload")

Init ==
  /\ c \in Cases
  /\ proposer = 1 /\ voters = GroupOf(c.n)
  /\ epoch = 2 /\ lastElected = 0 /\ accepted = TRUE
  /\ rec = [m \in Members |-> IF m >= 1 /\ m <= c.n + 1 THEN [status |-> "active", key |-> "key", height |-> 0] ELSE NoRec]
  /\ onQ = << >> /\ offQ = << >> /\ seq = 3 /\ randao = << >> /\ pubkeys = {} /\ accounts = 1..(c.n + 1) /\ halted = FALSE

Next == UNCHANGED << rvars, c >>

(* C01 as the statement words it, independent of the guard order of QuorumOk. *)
GenuineQuorum ==
  Verdict(c) =>
    /\ c.mut = "none"
    /\ \A j \in c.marks : j < c.n
    /\ c.signers = KeysOf(c.n, c.marks)
    /\ 0 \notin c.signers
    /\ Cardinality(c.signers) >= Threshold(c.n)
    /\ Cardinality(c.signers) = Cardinality(c.marks) + 1

(* State-independent form of the verdict (used as a scheduling hint by the replayer). *)
Hint(x) ==
  /\ x.mut = "none"
  /\ \A j \in x.marks : j < x.n
  /\ x.signers = KeysOf(x.n, x.marks)
  /\ Cardinality(x.marks) + 1 >= Threshold(x.n)
HintIsVerdict == Verdict(c) <=> Hint(c)

(* F3: a message is accepted only with the content the quorum signed. *)
PayloadBound == (c.size > 0 /\ Verdict(c)) => c.field = "none"

(* An honest quorum is accepted. *)
HonestQuorumAccepted ==
  (c.mut = "none" /\ c.marks \in GenuineQuorums(c.n) /\ c.signers = KeysOf(c.n, c.marks)) => Verdict(c)

WriteCases ==
  /\ TLCGet("stats").distinct >= 0
  /\ ndJsonSerialize(OutFile, SetToSeq({ [n |-> x.n, kind |-> x.kind, marks |-> SetToSeq(x.marks), signers |-> SetToSeq(x.signers),
                                          mut |-> x.mut, size |-> x.size, field |-> x.field, acc |-> Hint(x)] : x \in Cases }))
=============================================================================
