---------------------------- MODULE Trace_Relayer ----------------------------
(***************************************************************************)
(* Trace specification for x/relayer: every line of trace.ndjson is one     *)
(* step of a real execution of app.App.  Inputs are bound from the line,    *)
(* the next state is computed by the actions of Relayer.tla, verdicts (tx   *)
(* result class) and - on `end` lines - the complete projected module state *)
(* must agree with what the specification computes.                         *)
(*                                                                         *)
(* Events: init | begin | el | vote | newvoter | accept | nonvoted | end    *)
(*         | reimport                                                       *)
(***************************************************************************)
EXTENDS Relayer, Json

CONSTANT Bind     \* which observations are bound (blame assignment); see DESIGN.md 3.4
Trace == ndJsonDeserialize("trace.ndjson")

VARIABLES
  l,            \* next line to consume
  now, height,
  bridge,       \* opaque digest of the bitcoin module store (last observed)
  bridgeDirty,  \* something in this block may legitimately have changed bridge state
  acceptedLog,  \* history: vote ids accepted so far (C02)
  tip, curKey,  \* the two bridge values the kind-specific checks of the simple voted kinds depend on
  saved         \* the state at the beginning of a multi-message transaction (restored if the transaction fails)

tvars == << l, now, height, bridge, bridgeDirty, acceptedLog, tip, curKey >>
B(x) == x \in Bind

Ev == Trace[l]
IsEvent(e) == l <= Len(Trace) /\ Ev.ev = e /\ l' = l + 1

ToSet(s) == { s[i] : i \in DOMAIN s }

StateFrom(st) ==
  /\ proposer' = st.proposer
  /\ voters' = st.voters
  /\ epoch' = st.epoch
  /\ lastElected' = st.lastElected
  /\ accepted' = st.accepted
  /\ rec' = [m \in Members |-> IF m \in DOMAIN st.rec THEN
                 (IF st.rec[m].status = "none" THEN NoRec ELSE [status |-> st.rec[m].status, key |-> st.rec[m].key, height |-> st.rec[m].height])
               ELSE NoRec]
  /\ onQ' = st.onQ /\ offQ' = st.offQ
  /\ seq' = st.seq
  /\ randao' = st.randao
  /\ pubkeys' = ToSet(st.pubkeys)
  /\ accounts' = ToSet(st.accounts)
  /\ halted' = FALSE

TInit ==
  /\ l = 1 /\ now = 0 /\ height = 0 /\ bridge = "" /\ bridgeDirty = FALSE /\ acceptedLog = << >> /\ tip = 0 /\ curKey = ""
  /\ proposer = (CHOOSE m \in Members : TRUE) /\ voters = << >> /\ epoch = 0 /\ lastElected = 0 /\ accepted = TRUE
  /\ rec = [m \in Members |-> NoRec] /\ onQ = << >> /\ offQ = << >> /\ seq = 0 /\ randao = << >>
  /\ pubkeys = {} /\ accounts = {} /\ halted = FALSE
  /\ saved = << >>

(* init: a (new) chain starts from the logged state; also separates concatenated runs *)
TraceInitEv ==
  /\ IsEvent("init")
  /\ StateFrom(Ev.st)
  /\ now' = Ev.t /\ height' = Ev.h /\ bridge' = Ev.st.bridge /\ bridgeDirty' = FALSE
  /\ acceptedLog' = << >>
  /\ tip' = Ev.st.tip /\ curKey' = Ev.st.curKey

TraceBegin ==
  /\ IsEvent("begin")
  /\ now' = Ev.t /\ height' = Ev.h
  /\ bridgeDirty' = FALSE
  /\ UNCHANGED << rvars, bridge, acceptedLog, tip, curKey >>

(* the block message: only its relayer part is modelled here; its success is an input *)
TraceEl ==
  /\ IsEvent("el")
  /\ IF Ev.ok THEN ElRequests(Ev.adds, Ev.removes, height) ELSE UNCHANGED rvars
  /\ bridgeDirty' = (bridgeDirty \/ ~Ev.idle)
  /\ UNCHANGED << now, height, bridge, acceptedLog, tip, curKey >>

VoteMsg(e) ==
  [ pf |-> e.pf, mseq |-> e.mseq, mepoch |-> e.mepoch, marks |-> ToSet(e.marks), signers |-> ToSet(e.signers),
    doc |-> SignDoc(e.doc.chain, e.doc.seq, e.doc.epoch, e.doc.kind, e.doc.proposer, e.doc.payload), sigOk |-> e.sigOk ]

\* pre / post: the kind-specific checks before / after the quorum check (construction facts of the harness)
KindPre(e) ==
  CASE e.kind = "NewBlockHashes"   -> e.start = tip + 1          \* checked before the quorum
    [] e.kind = "NewConsolidation" -> e.payTo = curKey           \* pays the latest relayer key
    [] OTHER -> TRUE
KindPost(e) ==
  CASE e.kind = "NewPubkey" -> e.key \notin pubkeys              \* "the key already existed" is checked after the quorum
    [] OTHER -> TRUE
VoteVerdict(e) == e.pre /\ KindPre(e) /\ QuorumOk(VoteMsg(e), e.kind, e.payload) /\ KindPost(e) /\ e.post

TraceVote ==
  /\ IsEvent("vote")
  \* (a vote in a non-canonical bitmap encoding - trailing zero bytes cut off - may be refused for its form; accepted, it needs
  \* the same genuine quorum as any other)
  /\ B("vote") => IF Ev.enc = "trimmed" THEN (Ev.ok => VoteVerdict(Ev)) ELSE (Ev.ok = VoteVerdict(Ev))
  /\ IF Ev.ok
       THEN /\ AcceptVoted(Ev.vid)
            /\ pubkeys' = IF Ev.kind = "NewPubkey" THEN pubkeys \cup {Ev.key} ELSE pubkeys
            /\ acceptedLog' = Append(acceptedLog, Ev.vid)
            /\ bridgeDirty' = TRUE
            /\ tip' = IF Ev.kind = "NewBlockHashes" THEN tip + Ev.nh ELSE tip
            /\ curKey' = IF Ev.kind = "NewPubkey" THEN Ev.key ELSE curKey
       ELSE UNCHANGED << rvars, acceptedLog, bridgeDirty, tip, curKey >>
  /\ UNCHANGED << now, height, bridge >>

(* verify (C01, payload binding): the keeper's VerifyProposal called directly on a message whose vote an honest quorum  *)
(* produced for the content named in doc.payload, presented with the content named in payload; nothing changes.       *)
TraceVerify ==
  /\ IsEvent("verify")
  /\ B("vote") => (Ev.ok = QuorumOk(VoteMsg(Ev), Ev.kind, Ev.payload))
  /\ UNCHANGED << rvars, now, height, bridge, bridgeDirty, acceptedLog, tip, curKey >>

TraceNewVoter ==
  /\ IsEvent("newvoter")
  /\ LET p == [pf |-> Ev.pf, voter |-> Ev.voter, sizesOk |-> Ev.sizesOk, keyHashOk |-> Ev.keyHashOk,
               txProofOk |-> Ev.txProofOk, blsProofOk |-> Ev.blsProofOk] IN
     /\ B("newvoter") => (Ev.ok = NewVoterOk(p))
     /\ IF Ev.ok THEN NewVoterApply(p) ELSE UNCHANGED rvars
  /\ UNCHANGED << now, height, bridge, bridgeDirty, acceptedLog, tip, curKey >>

TraceAccept ==
  /\ IsEvent("accept")
  /\ B("accept") => (Ev.ok = AcceptProposerOk(Ev.pf, Ev.epoch, now))
  /\ IF Ev.ok THEN AcceptProposerApply ELSE UNCHANGED rvars
  /\ UNCHANGED << now, height, bridge, bridgeDirty, acceptedLog, tip, curKey >>

(* a non-voted bridge message: its verdict belongs to Bridge.tla; here only the implicit acceptance *)
TraceNonVoted ==
  /\ IsEvent("nonvoted")
  /\ Ev.ok => NonVotedOk(Ev.pf)
  /\ IF Ev.ok THEN AcceptNonVoted /\ bridgeDirty' = TRUE ELSE UNCHANGED << rvars, bridgeDirty >>
  /\ UNCHANGED << now, height, bridge, acceptedLog, tip, curKey >>

(* a transaction that is no relayer/bridge message (or is malformed): must fail and change nothing here *)
TraceOther ==
  /\ IsEvent("other")
  /\ Ev.ok = FALSE
  /\ UNCHANGED << rvars, now, height, bridge, bridgeDirty, acceptedLog, tip, curKey >>

RecOf(st) == [m \in Members |-> IF m \in DOMAIN st.rec THEN
                  (IF st.rec[m].status = "none" THEN NoRec ELSE [status |-> st.rec[m].status, key |-> st.rec[m].key, height |-> st.rec[m].height])
                ELSE NoRec]

(* end of block: EndBlocker, then the complete projected state.  Observations the property under check  *)
(* speaks about (Bind) must equal what the specification computed; the specification then continues    *)
(* from the observed state, so that a divergence in a slice that belongs to another property does not   *)
(* cascade into this one.                                                                               *)
TraceEnd ==
  /\ IsEvent("end")
  /\ LET st == Ev.st
         n  == ElectorateSize(Ev.t)
         r  == EndResult(Ev.t, IF n > 1 THEN Ev.idx[n] ELSE 0)
     IN
     /\ ~r.halted
     /\ B("group")    => (r.proposer = st.proposer /\ r.voters = st.voters /\ r.rec = RecOf(st) /\ r.onQ = st.onQ /\ r.offQ = st.offQ)
     /\ B("epoch")    => (r.epoch = st.epoch /\ r.lastElected = st.lastElected)
     /\ B("accepted") => r.accepted = st.accepted
     /\ B("seq")      => (seq = st.seq /\ randao = st.randao)
     /\ B("pubkeys")  => pubkeys = ToSet(st.pubkeys)
     /\ B("accounts") => accounts = ToSet(st.accounts)
     /\ st.unknown = 0
     /\ (B("bridge") /\ ~bridgeDirty) => st.bridge = bridge
     /\ B("bridge") => (st.tip = tip /\ st.curKey = curKey)
     /\ StateFrom(st)
     /\ bridge' = st.bridge /\ tip' = st.tip /\ curKey' = st.curKey
  /\ UNCHANGED << now, height, bridgeDirty, acceptedLog >>

(* export ; InitChain: the group, records, epoch, sequence, accumulator, keys are the same; the boarding queues hold the *)
(* same members (their order is rebuilt from the records in address order)                                               *)
TraceReimport ==
  /\ IsEvent("reimport")
  /\ LET st == Ev.st IN
     \* the imported state equals the exported one in every bound slice (C18 binds all of them; C16 the group, ...)
     /\ B("group") => (/\ proposer = st.proposer /\ voters = st.voters /\ rec = RecOf(st)
                       /\ ToSet(onQ) = ToSet(st.onQ) /\ ToSet(offQ) = ToSet(st.offQ) /\ Len(onQ) = Len(st.onQ) /\ Len(offQ) = Len(st.offQ)
                       /\ lastElected = st.lastElected)
     /\ B("epoch") => epoch = st.epoch
     /\ B("accepted") => accepted = st.accepted
     /\ B("seq") => (seq = st.seq /\ randao = st.randao)
     /\ B("pubkeys") => pubkeys = ToSet(st.pubkeys)
     /\ B("accounts") => accounts = ToSet(st.accounts)
     /\ B("bridge") => (tip = st.tip /\ curKey = st.curKey /\ bridge = st.bridge)
     /\ st.unknown = 0
     /\ StateFrom(st)
  /\ UNCHANGED << now, height, bridge, bridgeDirty, acceptedLog, tip, curKey >>

(* probe (C10): a relayer transaction signed by `signer` offered to the mempool at the committed state *)
TraceProbe ==
  /\ IsEvent("probe")
  /\ B("probe") => (Ev.admitted = (Ev.signer = proposer))
  /\ UNCHANGED << rvars, now, height, bridge, bridgeDirty, acceptedLog, tip, curKey >>

TNext0 == TraceProbe \/ TraceReimport \/ TraceInitEv \/ TraceBegin \/ TraceEl \/ TraceVote \/ TraceVerify \/ TraceNewVoter \/ TraceAccept
          \/ TraceNonVoted \/ TraceOther \/ TraceEnd

(* A transaction with several messages is all-or-nothing: `txbegin`, then one event per message that was executed (each with  *)
(* its own verdict, explained by the same actions as above - the messages run one after the other on the state the previous   *)
(* ones left), then `txend`: if the transaction failed (some message did), EVERYTHING its earlier messages did is undone.     *)
Snapshot == [ rv |-> << proposer, voters, epoch, lastElected, accepted, rec, onQ, offQ, seq, randao, pubkeys, accounts, halted >>,
              al |-> acceptedLog, bd |-> bridgeDirty, tip |-> tip, ck |-> curKey ]
TraceTxBegin ==
  /\ IsEvent("txbegin")
  /\ saved' = Snapshot
  /\ UNCHANGED << rvars, now, height, bridge, bridgeDirty, acceptedLog, tip, curKey >>
TraceTxEnd ==
  /\ IsEvent("txend")
  /\ saved # << >>
  /\ IF Ev.ok
       THEN UNCHANGED << rvars, bridgeDirty, acceptedLog, tip, curKey >>
       ELSE /\ proposer' = saved.rv[1] /\ voters' = saved.rv[2] /\ epoch' = saved.rv[3] /\ lastElected' = saved.rv[4]
            /\ accepted' = saved.rv[5] /\ rec' = saved.rv[6] /\ onQ' = saved.rv[7] /\ offQ' = saved.rv[8] /\ seq' = saved.rv[9]
            /\ randao' = saved.rv[10] /\ pubkeys' = saved.rv[11] /\ accounts' = saved.rv[12] /\ halted' = saved.rv[13]
            /\ acceptedLog' = saved.al /\ bridgeDirty' = saved.bd /\ tip' = saved.tip /\ curKey' = saved.ck
  /\ saved' = << >>
  /\ UNCHANGED << now, height, bridge >>

TNext == (TNext0 /\ UNCHANGED saved) \/ TraceTxBegin \/ TraceTxEnd

Reached == PrintT(<<"TRACE_REACHED", TLCGet("stats").diameter - 1, Len(Trace)>>)

(***************************************************************************)
(* Property predicates evaluated on the observed states.                    *)
(***************************************************************************)
\* C02: the sequence equals the number of accepted votes; no vote id is accepted twice
SingleUse == /\ Distinct(acceptedLog)
             /\ Len(acceptedLog) <= seq
\* C16
WellFormed == (l > 2) => (GroupWellFormed /\ QueuesWellFormed)
=============================================================================
