---------------------------- MODULE Trace_Relayer ----------------------------
(***************************************************************************)
(* Trace specification for x/relayer: every line of trace.ndjson is one     *)
(* step of a real execution of app.App.  Inputs are bound from the line,    *)
(* the next state is computed by the actions of Relayer.tla, verdicts (tx   *)
(* result class) and - on `end` lines - the complete projected module state *)
(* must agree with what the specification computes.                         *)
(*                                                                         *)
(* Events: init | begin | el | vote | newvoter | accept | nonvoted | end    *)
(*         | reimport                                                       *)
(***************************************************************************)
EXTENDS Relayer, Json

CONSTANT Bind     \* which observations are bound (blame assignment); see DESIGN.md 3.4
Trace == ndJsonDeserialize("trace.ndjson")

VARIABLES
  l,            \* next line to consume
  now, height,
  bridge,       \* opaque digest of the bitcoin module store (last observed)
  bridgeDirty,  \* something in this block may legitimately have changed bridge state
  acceptedLog   \* history: vote ids accepted so far (C02)

tvars == << l, now, height, bridge, bridgeDirty, acceptedLog >>
B(x) == x \in Bind

Ev == Trace[l]
IsEvent(e) == l <= Len(Trace) /\ Ev.ev = e /\ l' = l + 1

ToSet(s) == { s[i] : i \in DOMAIN s }

StateFrom(st) ==
  /\ proposer' = st.proposer
  /\ voters' = st.voters
  /\ epoch' = st.epoch
  /\ lastElected' = st.lastElected
  /\ accepted' = st.accepted
  /\ rec' = [m \in Members |-> IF m \in DOMAIN st.rec THEN st.rec[m] ELSE NoRec]
  /\ onQ' = st.onQ /\ offQ' = st.offQ
  /\ seq' = st.seq
  /\ randao' = st.randao
  /\ pubkeys' = ToSet(st.pubkeys)
  /\ accounts' = ToSet(st.accounts)
  /\ halted' = FALSE

TInit ==
  /\ l = 1 /\ now = 0 /\ height = 0 /\ bridge = "" /\ bridgeDirty = FALSE /\ acceptedLog = << >>
  /\ proposer = (CHOOSE m \in Members : TRUE) /\ voters = << >> /\ epoch = 0 /\ lastElected = 0 /\ accepted = TRUE
  /\ rec = [m \in Members |-> NoRec] /\ onQ = << >> /\ offQ = << >> /\ seq = 0 /\ randao = << >>
  /\ pubkeys = {} /\ accounts = {} /\ halted = FALSE

(* init: a (new) chain starts from the logged state; also separates concatenated runs *)
TraceInitEv ==
  /\ IsEvent("init")
  /\ StateFrom(Ev.st)
  /\ now' = Ev.t /\ height' = Ev.h /\ bridge' = Ev.st.bridge /\ bridgeDirty' = FALSE
  /\ acceptedLog' = << >>

TraceBegin ==
  /\ IsEvent("begin")
  /\ now' = Ev.t /\ height' = Ev.h
  /\ bridgeDirty' = FALSE
  /\ UNCHANGED << rvars, bridge, acceptedLog >>

(* the block message: only its relayer part is modelled here; its success is an input *)
TraceEl ==
  /\ IsEvent("el")
  /\ IF Ev.ok THEN ElRequests(Ev.adds, Ev.removes, height) ELSE UNCHANGED rvars
  /\ bridgeDirty' = (bridgeDirty \/ ~Ev.idle)
  /\ UNCHANGED << now, height, bridge, acceptedLog >>

VoteMsg(e) ==
  [ pf |-> e.pf, mseq |-> e.mseq, mepoch |-> e.mepoch, marks |-> ToSet(e.marks), signers |-> ToSet(e.signers),
    doc |-> SignDoc(e.doc.chain, e.doc.seq, e.doc.epoch, e.doc.kind, e.doc.proposer, e.doc.payload), sigOk |-> e.sigOk ]

\* pre / post: the kind-specific checks before / after the quorum check (construction facts of the harness)
VoteVerdict(e) == e.pre /\ QuorumOk(VoteMsg(e), e.kind, e.payload) /\ e.post

TraceVote ==
  /\ IsEvent("vote")
  /\ B("vote") => (Ev.ok = VoteVerdict(Ev))
  /\ IF Ev.ok
       THEN /\ AcceptVoted(Ev.vid)
            /\ pubkeys' = IF Ev.kind = "NewPubkey" THEN pubkeys \cup {Ev.key} ELSE pubkeys
            /\ acceptedLog' = Append(acceptedLog, Ev.vid)
            /\ bridgeDirty' = TRUE
       ELSE UNCHANGED << rvars, acceptedLog, bridgeDirty >>
  /\ UNCHANGED << now, height, bridge >>

TraceNewVoter ==
  /\ IsEvent("newvoter")
  /\ LET p == [pf |-> Ev.pf, voter |-> Ev.voter, sizesOk |-> Ev.sizesOk, keyHashOk |-> Ev.keyHashOk,
               txProofOk |-> Ev.txProofOk, blsProofOk |-> Ev.blsProofOk] IN
     /\ B("newvoter") => (Ev.ok = NewVoterOk(p))
     /\ IF Ev.ok THEN NewVoterApply(p) ELSE UNCHANGED rvars
  /\ UNCHANGED << now, height, bridge, bridgeDirty, acceptedLog >>

TraceAccept ==
  /\ IsEvent("accept")
  /\ B("accept") => (Ev.ok = AcceptProposerOk(Ev.pf, Ev.epoch, now))
  /\ IF Ev.ok THEN AcceptProposerApply ELSE UNCHANGED rvars
  /\ UNCHANGED << now, height, bridge, bridgeDirty, acceptedLog >>

(* a non-voted bridge message: its verdict belongs to Bridge.tla; here only the implicit acceptance *)
TraceNonVoted ==
  /\ IsEvent("nonvoted")
  /\ Ev.ok => NonVotedOk(Ev.pf)
  /\ IF Ev.ok THEN AcceptNonVoted /\ bridgeDirty' = TRUE ELSE UNCHANGED << rvars, bridgeDirty >>
  /\ UNCHANGED << now, height, bridge, acceptedLog >>

(* a transaction that is no relayer/bridge message (or is malformed): must fail and change nothing here *)
TraceOther ==
  /\ IsEvent("other")
  /\ Ev.ok = FALSE
  /\ UNCHANGED << rvars, now, height, bridge, bridgeDirty, acceptedLog >>

RecMatches(st) == \A m \in Members : m \in DOMAIN st.rec =>
                     /\ rec'[m].status = st.rec[m].status
                     /\ rec'[m].key = st.rec[m].key
                     /\ (rec'[m].status # "none" => rec'[m].height = st.rec[m].height)

StateMatches(st) ==
  /\ B("group")    => (proposer' = st.proposer /\ voters' = st.voters /\ RecMatches(st) /\ onQ' = st.onQ /\ offQ' = st.offQ)
  /\ B("epoch")    => (epoch' = st.epoch /\ lastElected' = st.lastElected)
  /\ B("accepted") => accepted' = st.accepted
  /\ B("seq")      => (seq' = st.seq /\ randao' = st.randao)
  /\ B("pubkeys")  => pubkeys' = ToSet(st.pubkeys)
  /\ B("accounts") => accounts' = ToSet(st.accounts)
  /\ st.unknown = 0

TraceEnd ==
  /\ IsEvent("end")
  /\ \E k \in ToSet(Ev.idx) \cup {0} :
       /\ EndBlock(Ev.t, k)
       /\ (Len(voters') > 1 => k = Ev.idx[Len(voters')])
  /\ ~halted'
  /\ StateMatches(Ev.st)
  /\ bridge' = Ev.st.bridge
  /\ (B("bridge") /\ ~bridgeDirty) => Ev.st.bridge = bridge
  /\ UNCHANGED << now, height, bridgeDirty, acceptedLog >>

TNext == TraceInitEv \/ TraceBegin \/ TraceEl \/ TraceVote \/ TraceNewVoter \/ TraceAccept
         \/ TraceNonVoted \/ TraceOther \/ TraceEnd

Reached == PrintT(<<"TRACE_REACHED", TLCGet("stats").diameter - 1, Len(Trace)>>)

(***************************************************************************)
(* Property predicates evaluated on the observed states.                    *)
(***************************************************************************)
\* C02: the sequence equals the number of accepted votes; no vote id is accepted twice
SingleUse == /\ Distinct(acceptedLog)
             /\ Len(acceptedLog) <= seq
\* C16
WellFormed == (l > 2) => (GroupWellFormed /\ QueuesWellFormed)
=============================================================================
