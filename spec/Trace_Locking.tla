---------------------------- MODULE Trace_Locking ----------------------------
(***************************************************************************)
(* Trace specification for x/locking.  Events:                              *)
(*   init      the state a chain starts from (also separates runs)          *)
(*   begin     BeginBlock inputs: height, time, last-commit votes, evidence *)
(*   blockmsg  the execution-block message: decoded locking requests, the   *)
(*             locking system transactions the payload carried, result      *)
(*   end       validator updates, CometBFT's verdict on them, full state    *)
(*   halt      FinalizeBlock failed (never explained: a halt is a violation)*)
(*   reimport  export ; InitChain on a fresh application                    *)
(***************************************************************************)
EXTENDS Locking, Json

CONSTANT Bind, Debug
Trace == ndJsonDeserialize("trace.ndjson")

VARIABLES
  l, lk, now, height,
  comet,        \* CometBFT's validator set as accumulated from the updates (observed via the real cmttypes.ValidatorSet)
  hist          \* history totals for the conservation laws:
                \* [locked: [Tokens->Nat], released: [Tokens->Nat], granted, fees, claimed, deliveredUnlocks: Seq, unlockLog: Seq]

vars == << l, lk, now, height, comet, hist >>
B(x) == x \in Bind
Ev == Trace[l]
IsEvent(e) == l <= Len(Trace) /\ Ev.ev = e /\ l' = l + 1
ToSet(s) == { s[i] : i \in DOMAIN s }

(* --- decoding of the projected state ----------------------------------- *)
ValFrom(x) == [exists |-> x.exists, status |-> x.status, power |-> x.power,
               locking |-> [t \in Tokens |-> x.locking[t]], reward |-> x.reward, gasReward |-> x.gasReward,
               offset |-> x.offset, missed |-> x.missed, jailedUntil |-> x.jailedUntil]
TokFrom(x) == [exists |-> x.exists, weight |-> x.weight, threshold |-> x.threshold]
QUnl(s) == [i \in 1..Len(s) |-> [id |-> s[i].id, token |-> s[i].token, amount |-> s[i].amount]]
QRew(s) == [i \in 1..Len(s) |-> [id |-> s[i].id, goat |-> s[i].goat, gas |-> s[i].gas]]
UQ(s)   == [i \in 1..Len(s) |-> [time |-> s[i].time, id |-> s[i].id, token |-> s[i].token, amount |-> s[i].amount]]

StateFrom(st) ==
  [ val |-> [v \in Vals |-> ValFrom(st.val[v])],
    tokens |-> [t \in Tokens |-> TokFrom(st.tokens[t])],
    thr |-> [t \in Tokens |-> st.thr[t]],
    lockIdx |-> [k \in Tokens \X Vals |->
                   IF \E i \in DOMAIN st.lockIdx : st.lockIdx[i][1] = k[1] /\ st.lockIdx[i][2] = k[2]
                     THEN st.lockIdx[CHOOSE i \in DOMAIN st.lockIdx : st.lockIdx[i][1] = k[1] /\ st.lockIdx[i][2] = k[2]][3]
                     ELSE Absent],
    ranking |-> { <<st.ranking[i][1], st.ranking[i][2]>> : i \in DOMAIN st.ranking },
    valSet |-> [v \in Vals |-> st.valSet[v]],
    slashed |-> [t \in Tokens |-> st.slashed[t]],
    pool |-> [goat |-> st.pool.goat, gas |-> st.pool.gas, remain |-> st.pool.remain],
    unlockQ |-> UQ(st.unlockQ),
    q |-> [rewards |-> QRew(st.qRewards), unlocks |-> QUnl(st.qUnlocks)],
    nonce |-> st.nonce,
    hasAcc |-> ToSet(st.hasAcc),
    err |-> FALSE ]

Obs(S) == S

(* --- slices compared at the end of a block (blame assignment) ----------- *)
SameVals(A, C, F(_)) == \A v \in Vals : F(A.val[v]) = F(C.val[v])

FundsMatch(A, C) ==     \* C11
  /\ SameVals(A, C, LAMBDA x : x.locking) /\ A.slashed = C.slashed
  /\ A.unlockQ = C.unlockQ /\ A.q.unlocks = C.q.unlocks /\ A.lockIdx = C.lockIdx
RewardsMatch(A, C) ==   \* C12
  /\ A.pool = C.pool /\ SameVals(A, C, LAMBDA x : << x.reward, x.gasReward >>) /\ A.q.rewards = C.q.rewards
SetMatch(A, C) ==       \* C13
  /\ A.ranking = C.ranking /\ A.valSet = C.valSet /\ SameVals(A, C, LAMBDA x : << x.exists, x.status, x.power >>)
PunishMatch(A, C) ==    \* C14
  /\ SameVals(A, C, LAMBDA x : << x.status, x.jailedUntil, x.offset, x.missed >>) /\ A.slashed = C.slashed
UnlockMatch(A, C) ==    \* C15 (incl. "drops below a threshold => leaves the candidate set immediately with zero power")
  /\ A.unlockQ = C.unlockQ /\ A.q.unlocks = C.q.unlocks /\ A.nonce = C.nonce
  /\ SameVals(A, C, LAMBDA x : << x.status, x.power, x.locking >>) /\ A.ranking = C.ranking /\ A.lockIdx = C.lockIdx
TokensMatch(A, C) == A.tokens = C.tokens /\ A.thr = C.thr /\ A.hasAcc = C.hasAcc
QueuesMatch(A, C) ==    \* C06 (the locking module's side of the hand-over: what is scheduled, what is due, the nonce)
  /\ A.unlockQ = C.unlockQ /\ A.q = C.q /\ A.nonce = C.nonce

Matches(A, C) ==
  /\ B("funds")   => FundsMatch(A, C)
  /\ B("rewards") => RewardsMatch(A, C)
  /\ B("set")     => SetMatch(A, C)
  /\ B("punish")  => PunishMatch(A, C)
  /\ B("unlock")  => UnlockMatch(A, C)
  /\ B("tokens")  => TokensMatch(A, C)
  /\ B("queues")  => QueuesMatch(A, C)

(* --- debugging aid: with Debug = TRUE a rejected step prints what differs (used when a replay is saved) --- *)
TopFields == {"tokens", "thr", "lockIdx", "ranking", "valSet", "slashed", "pool", "unlockQ", "q", "nonce", "hasAcc"}
Diff(A, C) == << { << f, A[f], C[f] >> : f \in { g \in TopFields : A[g] # C[g] } },
                 { << v, A.val[v], C.val[v] >> : v \in { x \in Vals : A.val[x] # C.val[x] } } >>
Explain(tag, x) == Debug /\ PrintT(<< tag, l, x >>) /\ FALSE
Chk(cond, tag, x) == IF cond THEN TRUE ELSE Explain(tag, x)

NoHist == [locked |-> [t \in Tokens |-> 0], released |-> [t \in Tokens |-> 0], granted |-> 0, fees |-> 0, claimed |-> 0,
           delivered |-> << >>, requested |-> << >>]

TInit ==
  /\ l = 1 /\ now = 0 /\ height = 0
  /\ lk = [val |-> [v \in Vals |-> NoVal], tokens |-> [t \in Tokens |-> NoToken], thr |-> [t \in Tokens |-> 0],
           lockIdx |-> [k \in Tokens \X Vals |-> Absent], ranking |-> {}, valSet |-> [v \in Vals |-> Absent],
           slashed |-> [t \in Tokens |-> 0], pool |-> [goat |-> 0, gas |-> 0, remain |-> 0], unlockQ |-> << >>,
           q |-> [rewards |-> << >>, unlocks |-> << >>], nonce |-> 0, hasAcc |-> {}, err |-> FALSE]
  /\ comet = [v \in Vals |-> Absent]
  /\ hist = NoHist

\* baseline of the conservation history: whatever the (genesis) state already holds counts as locked / granted
HistFrom(S) ==
  [NoHist EXCEPT !.locked = [t \in Tokens |-> Held(S, t) + S.slashed[t]
                               + SumOver(DOMAIN S.unlockQ, LAMBDA i : IF S.unlockQ[i].token = t THEN S.unlockQ[i].amount ELSE 0)
                               + SumOver(DOMAIN S.q.unlocks, LAMBDA i : IF S.q.unlocks[i].token = t THEN S.q.unlocks[i].amount ELSE 0)],
                 !.released = [t \in Tokens |->
                                 SumOver(DOMAIN S.unlockQ, LAMBDA i : IF S.unlockQ[i].token = t THEN S.unlockQ[i].amount ELSE 0)
                               + SumOver(DOMAIN S.q.unlocks, LAMBDA i : IF S.q.unlocks[i].token = t THEN S.q.unlocks[i].amount ELSE 0)],
                 !.granted = S.pool.goat + S.pool.gas + S.pool.remain + Accrued(S)
                             + SumOver(DOMAIN S.q.rewards, LAMBDA i : S.q.rewards[i].goat + S.q.rewards[i].gas),
                 !.claimed = SumOver(DOMAIN S.q.rewards, LAMBDA i : S.q.rewards[i].goat + S.q.rewards[i].gas)]

TraceInitEv ==
  /\ IsEvent("init")
  /\ lk' = StateFrom(Ev.st)
  /\ now' = Ev.t /\ height' = Ev.h
  /\ comet' = [v \in Vals |-> Ev.comet[v]]
  /\ hist' = HistFrom(StateFrom(Ev.st))

Votes(e) == [i \in 1..Len(e.votes) |-> [v |-> e.votes[i].v, power |-> e.votes[i].power, absent |-> e.votes[i].absent]]
Evid(e)  == [i \in 1..Len(e.evid) |-> [v |-> e.evid[i].v, h |-> e.evid[i].h, t |-> e.evid[i].t, known |-> e.evid[i].known]]

TraceBegin ==
  /\ IsEvent("begin")
  /\ now' = Ev.t /\ height' = Ev.h
  /\ LET S == Begin(lk, Votes(Ev), Evid(Ev), Ev.h, Ev.t) IN
     /\ Chk(~S.err, "BEGIN-ERR", S)   \* BeginBlock never fails (a real failure is logged as `halt`)
     /\ lk' = S
  /\ UNCHANGED << comet, hist >>

Req(r) ==
  [ gas |-> r.gas, grants |-> r.grants,
    weights |-> [i \in 1..Len(r.weights) |-> [t |-> r.weights[i].t, w |-> r.weights[i].w]],
    thresholds |-> [i \in 1..Len(r.thresholds) |-> [t |-> r.thresholds[i].t, th |-> r.thresholds[i].th]],
    creates |-> [i \in 1..Len(r.creates) |-> [v |-> r.creates[i].v, addrOk |-> r.creates[i].addrOk]],
    locks |-> [i \in 1..Len(r.locks) |-> [v |-> r.locks[i].v, t |-> r.locks[i].t, amt |-> r.locks[i].amt]],
    unlocks |-> [i \in 1..Len(r.unlocks) |-> [id |-> r.unlocks[i].id, v |-> r.unlocks[i].v, t |-> r.unlocks[i].t, amt |-> r.unlocks[i].amt]],
    claims |-> [i \in 1..Len(r.claims) |-> [id |-> r.claims[i].id, v |-> r.claims[i].v]] ]

NewIds(r) == { r.unlocks[i].id : i \in 1..Len(r.unlocks) }

\* what the payload carried for this module, with nonces
DeliveredOk(e) ==
  LET dr == DueRewards(lk)
      du == DueUnlocks(lk)
      carried == e.delivered
  IN /\ Len(carried) = Len(dr) + Len(du)
     /\ \A i \in 1..Len(dr) : /\ carried[i].kind = "reward" /\ carried[i].nonce = lk.nonce + i - 1
                              /\ carried[i].id = dr[i].id /\ carried[i].goat = dr[i].goat /\ carried[i].gas = dr[i].gas
     /\ \A i \in 1..Len(du) : LET c == carried[Len(dr) + i] IN
                              /\ c.kind = "unlock" /\ c.nonce = lk.nonce + Len(dr) + i - 1
                              /\ c.id = du[i].id /\ c.token = du[i].token /\ c.amount = du[i].amount

TraceBlockMsg ==
  /\ IsEvent("blockmsg")
  /\ LET r == Req(Ev.r)
         S == BlockMsg(lk, r, height, now)
         specOk == ~S.err
     IN
     \* the honest payload carries exactly what is due (C06/C15); its result is the specification's
     /\ Chk((B("unlock") /\ Ev.otherOk) => DeliveredOk(Ev), "DELIVERED-MISMATCH", << DueRewards(lk), DueUnlocks(lk), lk.nonce >>)
     /\ Chk((B("blockmsg") /\ Ev.otherOk /\ ~Ev.ou) => (Ev.ok = specOk), "BLOCKMSG-VERDICT", specOk)
     \* ou ("others unknown"): the same block message carries possibly failing requests of ANOTHER module (system histories);
     \* then only "accepted => this module's requests were acceptable" can be demanded here - and, below, that a failed
     \* block message leaves this module's state untouched whoever caused the failure (all-or-nothing across modules)
     /\ Chk((B("blockmsg") /\ Ev.ou) => (Ev.ok => specOk), "BLOCKMSG-ACCEPTED-BAD-REQUESTS", specOk)
     /\ (Ev.ok /\ ~Ev.ou) => Ev.otherOk
     /\ IF Ev.ok
          THEN /\ lk' = [S EXCEPT !.err = FALSE]
               /\ hist' = [hist EXCEPT
                    !.locked = [t \in Tokens |-> @[t] + SeqSum([i \in 1..Len(r.locks) |-> IF r.locks[i].t = t THEN r.locks[i].amt ELSE 0])],
                    !.released = [t \in Tokens |-> @[t] + SumOver({ i \in 1..Len(S.unlockQ) : S.unlockQ[i].id \in NewIds(r) }, LAMBDA i : IF S.unlockQ[i].token = t THEN S.unlockQ[i].amount ELSE 0)],
                    !.granted = @ + SeqSum(r.grants),
                    !.fees = @ + (IF Len(r.gas) = 1 /\ r.gas[1] > 0 THEN r.gas[1] ELSE 0),
                    !.claimed = @ + SumOver({ i \in 1..Len(S.q.rewards) : i > Len(Deliver(lk).q.rewards) }, LAMBDA i : S.q.rewards[i].goat + S.q.rewards[i].gas),
                    !.delivered = @ \o [i \in 1..Len(DueUnlocks(lk)) |-> [id |-> DueUnlocks(lk)[i].id, at |-> now]],
                    !.requested = @ \o [i \in 1..Len(r.unlocks) |->
                                           LET e == S.unlockQ[CHOOSE j \in 1..Len(S.unlockQ) : S.unlockQ[j].id = r.unlocks[i].id]
                                           IN [id |-> e.id, at |-> now, due |-> e.time, amount |-> e.amount, asked |-> r.unlocks[i].amt]] ]
          ELSE UNCHANGED << lk, hist >>
  /\ UNCHANGED << now, height, comet >>

Ups(e) == IF "ups" \in DOMAIN e THEN { <<e.ups[i][1], e.ups[i][2]>> : i \in DOMAIN e.ups } ELSE { <<e.vals[i][1], e.vals[i][2]>> : i \in DOMAIN e.vals }

TraceEnd ==
  /\ IsEvent("end")
  /\ LET w == End(lk, now)
         S == w[1]
         C == StateFrom(Ev.st)
     IN
     /\ Chk(~S.err, "END-ERR", S.ranking)        \* EndBlock never fails
     /\ Chk(B("set") => (Ups(Ev) = w[2]), "UPDATES-MISMATCH", w[2])   \* the reported changes are the specification's
     /\ Chk(B("set") => Ev.cometOk, "COMET-REJECTS", Ev.cometErr)     \* and CometBFT accepts them
     /\ Chk(Matches(Obs(S), C), "STATE-MISMATCH", Diff(S, C))
     /\ Ev.st.unknown = 0 /\ Ev.st.big = 0
     /\ lk' = C
     /\ comet' = [v \in Vals |-> Ev.comet[v]]
  /\ UNCHANGED << now, height, hist >>

(* export ; InitChain on a fresh application: every collection, the rebuilt indices included, equals what Reimport computes *)
TraceReimport ==
  /\ IsEvent("reimport")
  /\ LET C == StateFrom(Ev.st)
         R == Reimport(lk)
     IN
     \* every bound slice of the imported state equals the specification's Reimport of the exported one (C18 binds all slices,
     \* which cover ranking, index, recorded set and threshold list; C11 binds the funds slice only, and so on)
     /\ Chk(Matches(R, C), "REIMPORT-MISMATCH", Diff(R, C))
     /\ Chk(B("set") => (Ups(Ev) \ {<<0, 0>>} = { <<v, C.valSet[v]>> : v \in { x \in Vals : C.valSet[x] # Absent } }), "INIT-VALIDATORS", Ev.vals)
     /\ Ev.st.unknown = 0 /\ Ev.st.big = 0
     /\ lk' = C
     /\ comet' = [v \in Vals |-> Ev.comet[v]]
     /\ height' = Ev.h
  /\ UNCHANGED << now, hist >>

TNext == TraceInitEv \/ TraceBegin \/ TraceBlockMsg \/ TraceEnd \/ TraceReimport

Reached == PrintT(<<"TRACE_REACHED", TLCGet("stats").diameter - 1, Len(Trace)>>)

(***************************************************************************)
(* Property predicates, evaluated in every observed state.                  *)
(***************************************************************************)
AtBoundary == l > 1 /\ Trace[l - 1].ev \in {"end", "init", "reimport"}

\* C11: locked = held + slashed + released, nothing negative
FundsConserved ==
  AtBoundary => \A t \in Tokens : hist.locked[t] = Held(lk, t) + lk.slashed[t] + hist.released[t]
NothingNegative == NonNegative(lk)
UnlockBounded == \A i \in 1..Len(hist.requested) : hist.requested[i].amount <= hist.requested[i].asked /\ hist.requested[i].amount >= 0

\* C12: granted + fees = pools + accrued + claimed
RewardsConserved ==
  AtBoundary => hist.granted + hist.fees = lk.pool.goat + lk.pool.gas + lk.pool.remain + Accrued(lk) + hist.claimed

\* C13 (on observed states after EndBlock)
CometEqualsRecord == AtBoundary => \A v \in Vals : comet[v] = lk.valSet[v]
TopK == AtBoundary => (SetIsTopK(lk) /\ RankingConsistent(lk) /\ IndexConsistent(lk))

\* C14
PunishedPowerless ==
  /\ PunishedHaveNoPower(lk)
  /\ AtBoundary => \A v \in Vals : lk.val[v].status \in {"Tombstoned", "Downgrade", "Inactive"} => lk.valSet[v] = Absent

\* C15: every delivered unlock waited at least its delay; delivered once
DelayRespected ==
  \A i \in 1..Len(hist.delivered) :
     \E j \in 1..Len(hist.requested) : hist.requested[j].id = hist.delivered[i].id /\ hist.delivered[i].at >= hist.requested[j].due
DeliveredOnce == \A i, j \in 1..Len(hist.delivered) : i # j => hist.delivered[i].id # hist.delivered[j].id
=============================================================================
