CONSTANTS
  Members = {1,2,3,4,5,6,7,8}
  Period = 3
  AcceptTimeout = 2
  Bind = {"vote", "newvoter", "accept", "group", "epoch", "accepted", "seq", "pubkeys", "accounts", "bridge", "probe"}
INIT TInit
NEXT TNext
INVARIANTS SingleUse WellFormed
POSTCONDITION Reached
CHECK_DEADLOCK FALSE
