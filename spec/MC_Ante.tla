------------------------------- MODULE MC_Ante -------------------------------
(* The whole admission table (C10), enumerated: every mode x message pattern x signer class x    *)
(* envelope deviation.  Each case is one initial state; the table is written out for the replayer.*)
EXTENDS Ante, Json, SequencesExt, TLC
CONSTANTS OutFile, Full
VARIABLE c

Patterns ==
  { << m >> : m \in MsgClasses } \cup
  { << "bridge", "relayer" >>, << "relayer", "bridge" >>, << "bridge", "authAdmin" >>, << "consAdmin", "relayer" >>,
    << "block", "relayer" >>, << "bridge", "block" >>, << "block", "block" >>, << "bridge", "bridge", "relayer" >> }

Base(mode, ms, s) == [mode |-> mode, msgs |-> ms, signer |-> s, second |-> FALSE, memo |-> FALSE, timeout |-> "zero", sigOk |-> TRUE, seqOk |-> TRUE]
Deviations(b) ==
  { b, [b EXCEPT !.memo = TRUE], [b EXCEPT !.second = TRUE], [b EXCEPT !.timeout = "past"], [b EXCEPT !.timeout = "now"],
    [b EXCEPT !.timeout = "future"], [b EXCEPT !.sigOk = FALSE], [b EXCEPT !.seqOk = FALSE],
    [b EXCEPT !.timeout = "now", !.memo = TRUE], [b EXCEPT !.timeout = "now", !.sigOk = FALSE] }

OneAtATime == UNION { Deviations(Base(mode, ms, s)) : mode \in Modes, ms \in Patterns, s \in Signers }
Product == { [mode |-> mode, msgs |-> ms, signer |-> s, second |-> sd, memo |-> mo, timeout |-> t, sigOk |-> so, seqOk |-> sq] :
               mode \in Modes, ms \in { << m >> : m \in MsgClasses }, s \in Signers, sd \in BOOLEAN, mo \in BOOLEAN, t \in Timeouts, so \in BOOLEAN, sq \in BOOLEAN }
Cases == IF Full THEN OneAtATime \cup Product ELSE OneAtATime

Init == c \in Cases
Next == UNCHANGED c

Statement == C10(c)
NoAdmin == NoAdminEver(c)
BlockNeverInMempool == (c.mode \in {"check", "recheck", "prepare"} /\ \E i \in DOMAIN c.msgs : c.msgs[i] = "block") => ~Admit(c)

WriteCases ==
  /\ TLCGet("stats").distinct >= 0
  /\ ndJsonSerialize(OutFile, SetToSeq({ [mode |-> x.mode, msgs |-> x.msgs, signer |-> x.signer, second |-> x.second, memo |-> x.memo,
                                          timeout |-> x.timeout, sigOk |-> x.sigOk, seqOk |-> x.seqOk, admit |-> Admit(x)] : x \in Cases }))
=============================================================================
