CONSTANTS
  CapDeposits = 2
  CapWithdrawals = 2
  CapRewards = 2
  CapUnlocks = 2
  MaxTxs = 16
  MaxItems = 4
  UsedKinds = {"deposit", "paid", "reject"}
SPECIFICATION LiveSpec
INVARIANT HandedIsPrefix
PROPERTY EverythingHandedOver
CHECK_DEADLOCK FALSE
