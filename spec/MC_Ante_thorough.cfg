CONSTANTS
  OutFile = "cases.ndjson"
  Full = TRUE
INIT Init
NEXT Next
INVARIANTS Statement NoAdmin BlockNeverInMempool
POSTCONDITION WriteCases
CHECK_DEADLOCK FALSE
