CONSTANTS
  CapDeposits = 8
  CapWithdrawals = 8
  CapRewards = 16
  CapUnlocks = 16
  MaxTxs = 16
  Debug = FALSE
  Bind = {"faults", "head", "prepare", "process", "finalize"}
INIT TInit
NEXT TNext
INVARIANTS HandedOnce
POSTCONDITION Reached
CHECK_DEADLOCK FALSE
