CONSTANTS
  MaxDepositTx = 8
  MaxWithdrawalTx = 8
  Network = "regtest"
  Debug = FALSE
  Bind = {"v.hashes", "v.pubkey", "v.deposits", "blockmsg", "deposits", "queue", "params"}
INIT TInit
NEXT TNext
INVARIANTS CreditedOnce CreditedPositive QueueOk
PROPERTIES HashesAppendOnly
POSTCONDITION Reached
CHECK_DEADLOCK FALSE
