CONSTANTS
  Bind = {"rewards"}
INIT Init
NEXT Next
POSTCONDITION Reached
CHECK_DEADLOCK FALSE
