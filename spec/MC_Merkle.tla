----------------------------- MODULE MC_Merkle -----------------------------
(* Exhaustive case table for C04: every tree of 1..MaxLeaves leaves, every leaf, every claimed *)
(* position below 2^(depth+2) (and the same positions with a high bit set), every path          *)
(* mutation.  Each case is one initial state; the theorems are invariants; the table is        *)
(* written out for the replayer by the post-condition.                                         *)
EXTENDS Merkle, Json, SequencesExt, FiniteSets
CONSTANTS MaxLeaves, OutFile
VARIABLE c

ArgRange(n, kind) ==
  LET d == Depth(Leaves(n)) IN
  CASE kind = "trunc"        -> 1..(IF d = 0 THEN 1 ELSE d)
    [] kind = "swap"         -> 1..(IF d < 2 THEN 1 ELSE d - 1)
    [] kind = "replaceFresh" -> 1..(IF d = 0 THEN 1 ELSE d)
    [] kind = "otherLeaf"    -> 0..(n - 1)
    [] OTHER                 -> {0}

HiRange(kind) == IF kind \in {"genuine", "trunc", "otherLeaf"} THEN 0..1 ELSE {0}

Cases ==
  UNION { UNION { { [n |-> n, i |-> i, p |-> p, hi |-> hi, kind |-> kind, arg |-> arg] :
                      i \in 0..(n - 1), p \in 0..(Pow2(Depth(Leaves(n)) + 2) - 1),
                      hi \in HiRange(kind), arg \in ArgRange(n, kind) }
                  : kind \in MutKinds }
          : n \in 1..MaxLeaves }

Init == c \in Cases
Next == UNCHANGED c

Pos(x) == x.p + x.hi * HiUnit

(* T1 completeness: the genuine path at the true position verifies. *)
Complete == (c.kind = "genuine" /\ c.hi = 0 /\ c.p = c.i) => CaseVerdict(c)

(* T2 position binding: whatever enumerated path is presented, an accepted (leaf, position) *)
(* pair is one the tree really has.                                                         *)
PositionBinding == (CaseVerdict(c) /\ c.kind # "wrongRoot") => (c.hi = 0 /\ Occupies(c.n, c.i, c.p))

(* T3 the first transaction verifies under no other position. *)
CoinbaseOnlyAtZero == (CaseVerdict(c) /\ c.i = 0 /\ c.kind # "wrongRoot") => Pos(c) = 0

(* T4 malformed sizes and foreign roots never verify. *)
MalformedRejected == (~SizesOk(c.kind) \/ c.kind = "wrongRoot") => ~CaseVerdict(c)

(* T5 a position is accepted only if smaller than 2^(path length). *)
PositionBounded == CaseVerdict(c) => Pos(c) < Pow2(Len(Mutate(c.n, c.i, c.kind, c.arg)))

WriteCases ==
  /\ TLCGet("stats").distinct >= 0
  /\ ndJsonSerialize(OutFile, SetToSeq(Cases))
=============================================================================
