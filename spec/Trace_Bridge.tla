---------------------------- MODULE Trace_Bridge ----------------------------
(***************************************************************************)
(* Trace specification for x/bitcoin.  Events:                              *)
(*   init      state a chain starts from                                    *)
(*   blockmsg  execution-block message: bridge requests, the bridge system  *)
(*             transactions the payload carried, result                     *)
(*   hashes | pubkey | deposits | process | replace | finalize | approve |  *)
(*   consolidation                                                         *)
(*             one relayer transaction each, with its result class          *)
(*   end       full projected module state                                  *)
(***************************************************************************)
EXTENDS Bridge, Json

CONSTANTS Bind, Debug
Trace == ndJsonDeserialize("trace.ndjson")

VARIABLES
  saved,  \* the state at the beginning of a multi-message transaction (restored if the transaction fails)
  l, br,
  hist   \* [credited: Seq of receipts ever queued, notified: Seq [id, kind], edges ok flag, paidProof: ...]

vars == << l, br, hist >>
B(x) == x \in Bind
Ev == Trace[l]
IsEvent(e) == l <= Len(Trace) /\ Ev.ev = e /\ l' = l + 1
ToSet(s) == { s[i] : i \in DOMAIN s }
Explain(tag, x) == Debug /\ PrintT(<< tag, l, x >>) /\ FALSE
Chk(cond, tag, x) == IF cond THEN TRUE ELSE Explain(tag, x)

WdFrom(w) == [status |-> w.status, addr |-> w.addr, amount |-> w.amount, maxPrice |-> w.maxPrice,
              hasReceipt |-> w.hasReceipt, rTxid |-> w.rTxid, rTxout |-> w.rTxout, rAmount |-> w.rAmount]

StateFrom(st) ==
  [ tip |-> st.tip,
    hashes |-> [h \in st.base..st.tip |-> st.hashes[h - st.base + 1]],
    pubkeys |-> ToSet(st.pubkeys), curKey |-> st.curKey,
    deposited |-> { << st.deposited[i][1], st.deposited[i][2] >> : i \in DOMAIN st.deposited },
    wd |-> [id \in { st.wd[i].id : i \in DOMAIN st.wd } |-> WdFrom(st.wd[CHOOSE i \in DOMAIN st.wd : st.wd[i].id = id])],
    proc |-> [pid \in { st.proc[i].pid : i \in DOMAIN st.proc } |->
                LET p == st.proc[CHOOSE i \in DOMAIN st.proc : st.proc[i].pid = pid] IN [txids |-> p.txids, outputs |-> p.outputs, ids |-> p.ids, fee |-> p.fee]],
    nextPid |-> st.nextPid,
    q |-> [cursor |-> st.cursor,
           deposits |-> [i \in DOMAIN st.qDeposits |-> [txid |-> st.qDeposits[i].txid, vout |-> st.qDeposits[i].vout, evm |-> st.qDeposits[i].evm,
                                                        amount |-> st.qDeposits[i].amount, tax |-> st.qDeposits[i].tax]],
           paid |-> [i \in DOMAIN st.qPaid |-> [id |-> st.qPaid[i].id, txid |-> st.qPaid[i].txid, txout |-> st.qPaid[i].txout, amount |-> st.qPaid[i].amount]],
           rejected |-> st.qRejected],
    nonce |-> st.nonce,
    params |-> [minDeposit |-> st.params.minDeposit, taxRate |-> st.params.taxRate, maxTax |-> st.params.maxTax, conf |-> st.params.conf],
    err |-> FALSE ]

TInit ==
  /\ l = 1
  /\ br = [tip |-> 0, hashes |-> [h \in {0} |-> ""], pubkeys |-> {}, curKey |-> "", deposited |-> {}, wd |-> [i \in {} |-> NoWd],
           proc |-> [i \in {} |-> 0], nextPid |-> 0, q |-> [cursor |-> 0, deposits |-> << >>, paid |-> << >>, rejected |-> << >>],
           nonce |-> 0, params |-> [minDeposit |-> Dust, taxRate |-> 0, maxTax |-> 0, conf |-> 1], err |-> FALSE]
  /\ hist = [credited |-> << >>, notified |-> << >>]
  /\ saved = << >>

TraceInitEv ==
  /\ IsEvent("init")
  /\ br' = StateFrom(Ev.st)
  /\ hist' = [credited |-> << >>, notified |-> << >>]

(* ---- the execution-block message --------------------------------------- *)
Req(r) ==
  [ withdraws |-> [i \in DOMAIN r.withdraws |-> [id |-> r.withdraws[i].id, amount |-> r.withdraws[i].amount, price |-> r.withdraws[i].price,
                                                 addr |-> r.withdraws[i].addr, net |-> r.withdraws[i].net, kind |-> r.withdraws[i].kind]],
    rbf |-> [i \in DOMAIN r.rbf |-> [id |-> r.rbf[i].id, price |-> r.rbf[i].price]],
    cancel1 |-> r.cancel1,
    tax |-> [i \in DOMAIN r.tax |-> [rate |-> r.tax[i].rate, max |-> r.tax[i].max]],
    conf |-> r.conf, minDep |-> r.minDep ]

DeliveredOk(e) ==
  LET d == Due(br)
      c == e.delivered
      nh == Len(d.hashes)  nd == Len(d.deposits)  np == Len(d.paid)  nr == Len(d.rejected)
  IN /\ Len(c) = nh + nd + np + nr
     /\ \A i \in 1..Len(c) : c[i].nonce = br.nonce + i - 1
     /\ \A i \in 1..nh : c[i].kind = "newblock" /\ c[i].hash = d.hashes[i].hash
     /\ \A i \in 1..nd : LET x == c[nh + i] IN x.kind = "deposit" /\ x.txid = d.deposits[i].txid /\ x.txout = d.deposits[i].vout
                                              /\ x.target = d.deposits[i].evm /\ x.amount = d.deposits[i].amount /\ x.tax = d.deposits[i].tax
     /\ \A i \in 1..np : LET x == c[nh + nd + i] IN x.kind = "paid" /\ x.id = d.paid[i].id /\ x.txid = d.paid[i].txid
                                              /\ x.txout = d.paid[i].txout /\ x.amount = d.paid[i].amount
     /\ \A i \in 1..nr : LET x == c[nh + nd + np + i] IN x.kind = "cancel2" /\ x.id = d.rejected[i]

TraceBlockMsg ==
  /\ IsEvent("blockmsg")
  /\ LET S1 == Deliver(br)
         S2 == ElRequests(S1, Req(Ev.r))
         d == Due(br)
     IN
     /\ Chk((B("queue") /\ Ev.otherOk) => DeliveredOk(Ev), "DELIVERED-MISMATCH", Due(br))
     /\ Chk((B("blockmsg") /\ Ev.otherOk /\ ~Ev.ou) => (Ev.ok = ~S2.err), "BLOCKMSG-VERDICT", ~S2.err)
     \* ou ("others unknown"): possibly failing requests of another module ride in the same block message (system histories)
     /\ Chk((B("blockmsg") /\ Ev.ou) => (Ev.ok => ~S2.err), "BLOCKMSG-ACCEPTED-BAD-REQUESTS", ~S2.err)
     /\ IF Ev.ok
          THEN /\ br' = [S2 EXCEPT !.err = FALSE]
               /\ hist' = [hist EXCEPT !.credited = @ \o d.deposits,
                                       !.notified = @ \o [i \in DOMAIN d.paid |-> [id |-> d.paid[i].id, kind |-> "paid"]]
                                                      \o [i \in DOMAIN d.rejected |-> [id |-> d.rejected[i], kind |-> "refund"]]]
          ELSE UNCHANGED << br, hist >>

(* ---- relayer transactions ---------------------------------------------- *)
Apply(S1, okField, tag) ==
  /\ Chk(B("v." \o Ev.ev) => (okField = ~S1.err), tag, ~S1.err)
  /\ br' = IF okField THEN [S1 EXCEPT !.err = FALSE] ELSE br
  /\ UNCHANGED hist

Outs(o) == [i \in DOMAIN o |-> [script |-> o[i].script, value |-> o[i].value]]

TraceHashes ==
  /\ IsEvent("hashes")
  /\ Apply(IF Ev.pfOk THEN NewBlockHashes(br, [wf |-> Ev.wf, start |-> Ev.start, hashes |-> Ev.hashes, voteOk |-> Ev.voteOk]) ELSE Fail(br), Ev.ok, "HASHES-VERDICT")

TracePubkey ==
  /\ IsEvent("pubkey")
  /\ Apply(IF Ev.pfOk THEN NewPubkey(br, [wf |-> Ev.wf, key |-> Ev.key, voteOk |-> Ev.voteOk]) ELSE Fail(br), Ev.ok, "PUBKEY-VERDICT")

Dep(d) == [wf |-> d.wf, key |-> d.key, keyType |-> d.keyType, blk |-> d.blk, pos |-> d.pos, hdr |-> d.hdr, parseOk |-> d.parseOk, txid |-> d.txid,
           nOuts |-> d.nOuts, outIdx |-> d.outIdx, value |-> d.value, version |-> d.version, evm |-> d.evm, spvOk |-> d.spvOk,
           gen |-> [key |-> d.gen.key, evm |-> d.gen.evm, version |-> d.gen.version, magicOk |-> d.gen.magicOk]]

\* the deposit set uses the textual output index
DepKeyed(S) == S

TraceDeposits ==
  /\ IsEvent("deposits")
  /\ LET m == [wf |-> Ev.wf, pfOk |-> Ev.pfOk, deps |-> [i \in DOMAIN Ev.deps |-> Dep(Ev.deps[i])]]
     IN Apply(NewDeposits(br, m), Ev.ok, "DEPOSITS-VERDICT")

TraceProcess ==
  /\ IsEvent("process")
  /\ Apply(IF Ev.pfOk THEN ProcessWithdrawal(br, [wf |-> Ev.wf, parseOk |-> Ev.parseOk, ids |-> Ev.ids, outs |-> Outs(Ev.outs), fee |-> Ev.fee, size |-> Ev.size,
                                                  txid |-> Ev.txid, voteOk |-> Ev.voteOk]) ELSE Fail(br), Ev.ok, "PROCESS-VERDICT")

TraceReplace ==
  /\ IsEvent("replace")
  /\ Apply(IF Ev.pfOk THEN ReplaceWithdrawal(br, [wf |-> Ev.wf, parseOk |-> Ev.parseOk, pid |-> Ev.pid, outs |-> Outs(Ev.outs), fee |-> Ev.fee, size |-> Ev.size,
                                                  txid |-> Ev.txid, voteOk |-> Ev.voteOk]) ELSE Fail(br), Ev.ok, "REPLACE-VERDICT")

TraceFinalize ==
  /\ IsEvent("finalize")
  /\ Apply(FinalizeWithdrawal(br, [wf |-> Ev.wf, pfOk |-> Ev.pfOk, pid |-> Ev.pid, txid |-> Ev.txid, blk |-> Ev.blk, hdr |-> Ev.hdr, spvOk |-> Ev.spvOk]),
           Ev.ok, "FINALIZE-VERDICT")

TraceApprove ==
  /\ IsEvent("approve")
  /\ Apply(ApproveCancellation(br, [wf |-> Ev.wf, pfOk |-> Ev.pfOk, ids |-> Ev.ids]), Ev.ok, "APPROVE-VERDICT")

TraceConsolidation ==
  /\ IsEvent("consolidation")
  /\ Apply(IF Ev.pfOk THEN NewConsolidation(br, [wf |-> Ev.wf, parseOk |-> Ev.parseOk, nOuts |-> Ev.nOuts, payCur |-> Ev.payCur, voteOk |-> Ev.voteOk])
            ELSE Fail(br), Ev.ok, "CONSOLIDATION-VERDICT")

\* any other transaction (touches no bridge state)
TraceOther ==
  /\ IsEvent("other")
  /\ UNCHANGED << br, hist >>

(* ---- end of block -------------------------------------------------------- *)
TopFields == {"tip", "hashes", "pubkeys", "curKey", "deposited", "wd", "proc", "nextPid", "q", "nonce", "params"}
Slice(name) == CASE name = "deposits"    -> {"deposited", "tip", "hashes", "pubkeys", "curKey"}
                 [] name = "withdrawals" -> {"wd", "proc", "nextPid"}
                 [] name = "queue"       -> {"q", "nonce", "tip", "hashes"}
                 [] name = "params"      -> {"params"}
                 [] OTHER -> {}
BoundFields == UNION { Slice(n) : n \in Bind }
Diff(A, C) == { << f, A[f], C[f] >> : f \in { g \in BoundFields : A[g] # C[g] } }

TraceEnd ==
  /\ IsEvent("end")
  /\ LET C == StateFrom(Ev.st) IN
     /\ Chk(\A f \in BoundFields : br[f] = C[f], "STATE-MISMATCH", Diff(br, C))
     \* C17: a withdrawal whose address is refused is REFUNDED - the queue of refund notices owed to the execution layer
     /\ Chk(B("refunds") => br.q.rejected = C.q.rejected, "REFUND-QUEUE-MISMATCH", << br.q.rejected, C.q.rejected >>)
     /\ Ev.st.big = 0
     /\ br' = C
  /\ UNCHANGED hist

TraceReimport ==
  /\ IsEvent("reimport")
  /\ LET C == StateFrom(Ev.st) IN
     \* the bound slices of the imported state equal the exported ones (C18 binds every slice = all of TopFields)
     /\ Chk(\A f \in BoundFields : br[f] = C[f], "REIMPORT-MISMATCH", { << f, br[f], C[f] >> : f \in { g \in BoundFields : br[g] # C[g] } })
     /\ br' = C
  /\ UNCHANGED hist

TNext0 == TraceReimport \/ TraceInitEv \/ TraceBlockMsg \/ TraceHashes \/ TracePubkey \/ TraceDeposits \/ TraceProcess \/ TraceReplace
          \/ TraceFinalize \/ TraceApprove \/ TraceConsolidation \/ TraceOther \/ TraceEnd

(* A transaction with several messages is all-or-nothing: `txbegin`, one event per executed message (each explained by the    *)
(* actions above, on the state the previous messages left), `txend`: if the transaction failed, everything is undone.          *)
TraceTxBegin == IsEvent("txbegin") /\ saved' = << br, hist >> /\ UNCHANGED << br, hist >>
TraceTxEnd ==
  /\ IsEvent("txend")
  /\ saved # << >>
  /\ IF Ev.ok THEN UNCHANGED << br, hist >> ELSE br' = saved[1] /\ hist' = saved[2]
  /\ saved' = << >>
TNext == (TNext0 /\ UNCHANGED saved) \/ TraceTxBegin \/ TraceTxEnd

Reached == PrintT(<<"TRACE_REACHED", TLCGet("stats").diameter - 1, Len(Trace)>>)

(***************************************************************************)
(* Property predicates on observed states.                                  *)
(***************************************************************************)
\* C03: each (txid, vout) credited at most once in the lifetime of the chain; amount + tax consistent, tax < value
CreditedOnce == \A i, j \in DOMAIN hist.credited : i # j => << hist.credited[i].txid, hist.credited[i].vout >> # << hist.credited[j].txid, hist.credited[j].vout >>
CreditedPositive == \A i \in DOMAIN hist.credited : hist.credited[i].amount > 0 /\ hist.credited[i].tax >= 0
                                                    /\ hist.credited[i].amount + hist.credited[i].tax >= Dust
\* C05: told paid once or refund once per id, never both
NotifiedOnce == \A i, j \in DOMAIN hist.notified : i # j => hist.notified[i].id # hist.notified[j].id
\* C20
ParamsSafeInv == ParamsSafe(br.params)
QueueOk == QueueSane(br)
\* C05 status edges (action property over the observed withdrawal table)
\* (the `txend` of a failed multi-message transaction undoes speculative steps: it is a rollback, not a transition)
EdgesOk == [][\A id \in DOMAIN br'.wd : Edge(WdOf(br, id).status, br'.wd[id].status) \/ Trace[l].ev \in {"init", "txend"}]_vars
TerminalAbsorbing == [][\A id \in DOMAIN br.wd : (br.wd[id].status \in Terminal /\ Trace[l].ev \notin {"init", "reimport", "txend"}) => WdOf(br', id).status = br.wd[id].status]_vars
HashesAppendOnly == [][Trace[l].ev \notin {"init", "reimport", "txend"} => \A h \in DOMAIN br.hashes : h \in DOMAIN br'.hashes /\ br'.hashes[h] = br.hashes[h]]_vars
=============================================================================
