--------------------------- MODULE Trace_RewardBig ---------------------------
(* Large-scale regime of C12 / C13: real 18-digit magnitudes.  The values do not fit TLC's integers, so the  *)
(* harness logs derived small quantities computed with math/big from the real state after every block:       *)
(*   imbalance   granted + fees - (pools + accrued + claimed)        must be 0   (C12 conservation)           *)
(*   *Sign       sign of each pool and of the accrued total          never -1    (C12 non-negativity)         *)
(*   cometOk     the real CometBFT validator-set code accepted the reported updates  (C13)                    *)
(* and a FinalizeBlock failure is a `halt` event that no action explains.                                     *)
EXTENDS Integers, Sequences, Json, TLC
CONSTANT Bind
Trace == ndJsonDeserialize("trace.ndjson")
VARIABLE l
Init == l = 1
Ev == Trace[l]
B(x) == x \in Bind
Next == /\ l <= Len(Trace)
        /\ \/ Ev.ev = "init"
           \/ /\ Ev.ev = "block"
              /\ B("rewards") => (Ev.imbalance = 0 /\ Ev.goatSign >= 0 /\ Ev.gasSign >= 0 /\ Ev.remainSign >= 0 /\ Ev.accruedSign >= 0)
              /\ B("set") => Ev.cometOk
        /\ l' = l + 1
Reached == PrintT(<<"TRACE_REACHED", TLCGet("stats").diameter - 1, Len(Trace)>>)
=============================================================================
