---------------------------- MODULE BridgeArith ----------------------------
(***************************************************************************)
(* The integer arithmetic of x/bitcoin (tax, parameter bounds, fee rate),   *)
(* kept in a module of its own so that Bridge.tla (model checking, trace    *)
(* validation) and Proofs_BridgeArith.tla (TLAPS, unbounded) share ONE      *)
(* definition.                                                              *)
(***************************************************************************)
EXTENDS Integers

Dust == 1000
MaxTaxBP == 10000

(* Tax (C03/C20). *)
TaxOf(value, p) ==
  IF p.taxRate > 0 /\ value > MaxTaxBP
    THEN LET t == (value \div MaxTaxBP) * p.taxRate IN IF p.maxTax > 0 /\ t > p.maxTax THEN p.maxTax ELSE t
    ELSE 0

ParamsSafe(p) == p.taxRate < MaxTaxBP /\ p.minDeposit >= Dust /\ p.conf >= 1
\* what Params.Validate accepts (so that any reachable state can be exported and imported again)
ParamsImportable(p) == ParamsSafe(p) /\ (IF p.taxRate > 0 THEN p.maxTax > 0 /\ p.maxTax <= 100000000 ELSE p.maxTax = 0)


\* a tax request is applied only as a whole and only if the resulting pair is one the module's own validation accepts
MaxTaxCap == 100000000
TaxPairOk(rate, max) == rate < MaxTaxBP /\ (IF rate > 0 THEN max > 0 /\ max <= MaxTaxCap ELSE max = 0)

PriceOk(fee, size, maxPrice) == fee <= maxPrice * size       \* fee / size <= maxPrice
=============================================================================
