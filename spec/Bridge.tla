------------------------------- MODULE Bridge -------------------------------
(***************************************************************************)
(* x/bitcoin: voted Bitcoin block hashes, relayer keys, SPV-proven          *)
(* deposits, the withdrawal state machine, bridge parameters and the queue  *)
(* of system transactions owed to the execution layer.                      *)
(*                                                                         *)
(* The module state is one record (S); every handler is a transformer that  *)
(* either fails (S.err, nothing changes: the transaction is rolled back) or *)
(* returns the new state.  Messages are abstract records whose fields are   *)
(* the facts the code checks (construction facts of the harness); hashes,   *)
(* txids, keys and scripts are interned ids of which only equality is used. *)
(***************************************************************************)
EXTENDS Integers, Sequences, FiniteSets, TLC, BridgeArith

CONSTANTS
  MaxDepositTx,      \* per-block caps of the delivery queue (8 / 8 in the code)
  MaxWithdrawalTx,
  Network            \* configured Bitcoin network name

CoinbaseMaturity == 100

NoWd == [status |-> "none", addr |-> "", amount |-> 0, maxPrice |-> 0, hasReceipt |-> FALSE, rTxid |-> "", rTxout |-> 0, rAmount |-> 0]

\* S fields: tip, hashes (function height -> id), pubkeys, curKey, deposited (set of <<txid, vout>>),
\*           wd (function id -> withdrawal), proc (function pid -> batch), nextPid,
\*           q [cursor, deposits, paid, rejected], nonce, params [minDeposit, taxRate, maxTax, conf], err
Fail(S) == [S EXCEPT !.err = TRUE]
Min(a, b) == IF a < b THEN a ELSE b
Range(s) == { s[i] : i \in DOMAIN s }
WdOf(S, id) == IF id \in DOMAIN S.wd THEN S.wd[id] ELSE NoWd
SetWd(S, id, w) == [S EXCEPT !.wd = [k \in DOMAIN @ \cup {id} |-> IF k = id THEN w ELSE @[k]]]

(***************************************************************************)
(* MsgNewBlockHashes.  m = [wf, start, hashes, voteOk]                      *)
(***************************************************************************)
NewBlockHashes(S, m) ==
  IF ~m.wf \/ m.start # S.tip + 1 \/ ~m.voteOk THEN Fail(S)
  ELSE [S EXCEPT !.hashes = [h \in DOMAIN @ \cup (S.tip + 1)..(S.tip + Len(m.hashes)) |-> IF h \in DOMAIN @ THEN @[h] ELSE m.hashes[h - S.tip]],
                 !.tip = @ + Len(m.hashes)]

(***************************************************************************)
(* MsgNewPubkey.  m = [wf, key, voteOk]                                     *)
(***************************************************************************)
NewPubkey(S, m) ==
  IF ~m.wf \/ ~m.voteOk \/ m.key \in S.pubkeys THEN Fail(S)
  ELSE [S EXCEPT !.pubkeys = @ \cup {m.key}, !.curKey = m.key]

(***************************************************************************)
(* MsgNewDeposits.  m = [wf, pfOk, deps]; a deposit d =                     *)
(*  [wf, key, blk, pos, hdr, parseOk, txid, nOuts, outIdx, value, version,  *)
(*   gen (what the paid script was generated for: [key, evm, version, magicOk] or none), evm, spvOk] *)
(***************************************************************************)
ScriptOk(d) ==
  /\ d.gen.key = d.key /\ d.gen.evm = d.evm /\ d.gen.version = d.version /\ d.gen.magicOk
  /\ d.version \in {0, 1}
  /\ d.version = 1 => (d.outIdx = 0 /\ d.nOuts >= 2 /\ d.keyType = "secp256k1")

DepositOk(S, d) ==
  /\ d.wf
  /\ d.key \in S.pubkeys
  /\ d.blk \in DOMAIN S.hashes
  /\ d.pos = 0 => S.tip >= d.blk + CoinbaseMaturity
  /\ d.hdr # "none"
  /\ d.hdr = S.hashes[d.blk]
  /\ d.parseOk
  /\ d.outIdx < d.nOuts
  /\ << d.txid, d.outIdx >> \notin S.deposited
  /\ d.value >= S.params.minDeposit
  /\ ScriptOk(d)
  /\ d.spvOk

Receipt(S, d) == LET tax == TaxOf(d.value, S.params) IN
  [txid |-> d.txid, vout |-> d.outIdx, evm |-> d.evm, amount |-> d.value - tax, tax |-> tax]

RECURSIVE DepositWalk(_, _, _)
DepositWalk(S, ds, acc) ==
  IF ds = << >> THEN [S EXCEPT !.q.deposits = @ \o acc]
  ELSE LET d == Head(ds) IN
       IF ~DepositOk(S, d) THEN Fail(S)
       ELSE DepositWalk([S EXCEPT !.deposited = @ \cup {<< d.txid, d.outIdx >>}], Tail(ds), Append(acc, Receipt(S, d)))

NewDeposits(S, m) == IF ~m.wf \/ ~m.pfOk THEN Fail(S) ELSE DepositWalk(S, m.deps, << >>)

(***************************************************************************)
(* MsgProcessWithdrawal.                                                    *)
(*  m = [wf, parseOk, ids, outs (Seq [script, value]), fee, size, txid, voteOk] *)
(***************************************************************************)

RECURSIVE ProcessWalk(_, _, _, _)
ProcessWalk(S, m, i, values) ==
  IF i > Len(m.ids) THEN << S, values >>
  ELSE LET id == m.ids[i]
           w == WdOf(S, id)
           o == m.outs[i]
       IN IF w.status \notin {"pending", "canceling"} \/ ~PriceOk(m.fee, m.size, w.maxPrice)
             \/ o.script # w.addr \/ w.amount < o.value
            THEN << Fail(S), values >>
            ELSE ProcessWalk(SetWd(S, id, [w EXCEPT !.status = "processing", !.hasReceipt = TRUE, !.rTxid = m.txid, !.rTxout = i - 1, !.rAmount = o.value]),
                             m, i + 1, Append(values, o.value))

ChangeOk(S, m, n) == Len(m.outs) = n \/ (Len(m.outs) = n + 1 /\ m.outs[n + 1].script = S.curKey)

ProcessWithdrawal(S, m) ==
  IF ~m.wf \/ ~m.parseOk \/ Len(m.outs) \notin {Len(m.ids), Len(m.ids) + 1} \/ ~m.voteOk THEN Fail(S)
  ELSE LET w == ProcessWalk(S, m, 1, << >>)
           S1 == w[1]
       IN IF S1.err \/ ~ChangeOk(S, m, Len(m.ids)) THEN Fail(S)
          ELSE [S1 EXCEPT !.proc = [k \in DOMAIN @ \cup {S.nextPid} |-> IF k = S.nextPid
                                       THEN [txids |-> << m.txid >>, outputs |-> << w[2] >>, ids |-> m.ids, fee |-> m.fee] ELSE @[k]],
                          !.nextPid = @ + 1]

(***************************************************************************)
(* MsgReplaceWithdrawal.  m = [wf, parseOk, pid, outs, fee, size, txid, voteOk] *)
(***************************************************************************)
RECURSIVE ReplaceWalk(_, _, _, _, _)
ReplaceWalk(S, m, ids, i, values) ==
  IF i > Len(ids) THEN << S, values >>
  ELSE LET id == ids[i]
           w == WdOf(S, id)
           o == m.outs[i]
       IN IF w.status # "processing" \/ ~w.hasReceipt \/ ~PriceOk(m.fee, m.size, w.maxPrice) \/ o.script # w.addr \/ w.amount < o.value
            THEN << Fail(S), values >>
            ELSE ReplaceWalk(SetWd(S, id, [w EXCEPT !.rTxid = m.txid, !.rAmount = o.value]), m, ids, i + 1, Append(values, o.value))

ReplaceWithdrawal(S, m) ==
  IF ~m.wf \/ ~m.parseOk \/ m.pid \notin DOMAIN S.proc THEN Fail(S)
  ELSE LET p == S.proc[m.pid] IN
       IF p.fee >= m.fee \/ m.txid \in Range(p.txids) \/ Len(m.outs) \notin {Len(p.ids), Len(p.ids) + 1} \/ ~m.voteOk THEN Fail(S)
       ELSE LET w == ReplaceWalk(S, m, p.ids, 1, << >>)
                S1 == w[1]
            IN IF S1.err \/ ~ChangeOk(S, m, Len(p.ids)) THEN Fail(S)
               ELSE [S1 EXCEPT !.proc[m.pid] = [p EXCEPT !.txids = Append(@, m.txid), !.outputs = Append(@, w[2]), !.fee = m.fee]]

(***************************************************************************)
(* MsgFinalizeWithdrawal.  m = [wf, pfOk, pid, txid, blk, hdr, spvOk]       *)
(***************************************************************************)
IndexOf(s, x) == IF x \in Range(s) THEN CHOOSE i \in DOMAIN s : s[i] = x /\ \A j \in DOMAIN s : s[j] = x => i <= j ELSE 0

RECURSIVE FinalizeWalk(_, _, _, _, _)
FinalizeWalk(S, ids, vals, txid, i) ==
  IF i > Len(ids) THEN S
  ELSE LET id == ids[i]
           w == WdOf(S, id)
       IN IF w.status # "processing" \/ ~w.hasReceipt THEN Fail(S)
          ELSE FinalizeWalk([SetWd(S, id, [w EXCEPT !.status = "paid", !.rTxid = txid, !.rAmount = vals[i]])
                               EXCEPT !.q.paid = Append(@, [id |-> id, txid |-> txid, txout |-> w.rTxout, amount |-> vals[i]])],
                            ids, vals, txid, i + 1)

FinalizeWithdrawal(S, m) ==
  IF ~m.wf \/ ~m.pfOk \/ m.pid \notin DOMAIN S.proc THEN Fail(S)
  ELSE LET p == S.proc[m.pid]
           k == IndexOf(p.txids, m.txid)
       IN IF k = 0 \/ m.blk \notin DOMAIN S.hashes THEN Fail(S)
          ELSE IF m.hdr # S.hashes[m.blk] \/ ~m.spvOk THEN Fail(S)
          ELSE LET S1 == FinalizeWalk(S, p.ids, p.outputs[k], m.txid, 1) IN
               IF S1.err THEN Fail(S)
               ELSE [S1 EXCEPT !.proc = [j \in DOMAIN @ \ {m.pid} |-> @[j]]]

(***************************************************************************)
(* MsgApproveCancellation.  m = [wf, pfOk, ids]                             *)
(***************************************************************************)
RECURSIVE ApproveWalk(_, _)
ApproveWalk(S, ids) ==
  IF ids = << >> THEN S
  ELSE LET w == WdOf(S, Head(ids)) IN
       IF w.status # "canceling" THEN Fail(S)
       ELSE ApproveWalk(SetWd(S, Head(ids), [w EXCEPT !.status = "canceled"]), Tail(ids))

ApproveCancellation(S, m) ==
  IF ~m.wf \/ ~m.pfOk THEN Fail(S)
  ELSE LET S1 == ApproveWalk(S, m.ids) IN IF S1.err THEN Fail(S) ELSE [S1 EXCEPT !.q.rejected = @ \o m.ids]

(***************************************************************************)
(* MsgNewConsolidation.  m = [wf, parseOk, nOuts, payCur, voteOk]           *)
(* A voted Bitcoin transaction that sweeps the relayer's own outputs into   *)
(* ONE output paying the current relayer key.  It changes no bridge state   *)
(* (the relayer module consumes a sequence number, Relayer.tla).            *)
(***************************************************************************)
NewConsolidation(S, m) ==
  IF ~m.wf \/ ~m.parseOk \/ m.nOuts # 1 \/ ~m.payCur \/ ~m.voteOk THEN Fail(S) ELSE S

(***************************************************************************)
(* Execution-layer requests (inside the block message).                     *)
(*  r = [withdraws: Seq [id, amount, price, addr, net, kind], rbf: Seq [id, price], cancel1: Seq id, *)
(*       tax: Seq [rate, max], conf: Seq n, minDep: Seq n]                  *)
(***************************************************************************)
\* testnet3, signet and regtest share their base58 version bytes, testnet3 and signet their bech32 prefix: such
\* addresses are the same strings (and the same scripts), so "foreign network" means a different encoding class
Base58Class(net) == IF net = "mainnet" THEN "main" ELSE "test"
Hrp(net) == CASE net = "mainnet" -> "bc" [] net = "regtest" -> "bcrt" [] OTHER -> "tb"
AddrOk(w) ==
  /\ w.kind \in {"p2pkh", "p2sh", "p2wpkh", "p2wsh", "p2tr"}
  /\ IF w.kind \in {"p2pkh", "p2sh"} THEN Base58Class(w.net) = Base58Class(Network) ELSE Hrp(w.net) = Hrp(Network)

RECURSIVE WithdrawWalk(_, _)
WithdrawWalk(S, ws) ==
  IF ws = << >> THEN S
  ELSE LET w == Head(ws)
           ok == AddrOk(w)
           S1 == SetWd(S, w.id, [NoWd EXCEPT !.status = IF ok THEN "pending" ELSE "canceled", !.addr = w.addr, !.amount = w.amount, !.maxPrice = w.price])
       IN WithdrawWalk(IF ok THEN S1 ELSE [S1 EXCEPT !.rej = Append(@, w.id)], Tail(ws))

RECURSIVE RbfWalk(_, _)
RbfWalk(S, rs) ==
  IF rs = << >> \/ S.err THEN S
  ELSE LET r == Head(rs)
           w == WdOf(S, r.id)
       IN IF w.status = "none" THEN Fail(S)
          ELSE RbfWalk(IF w.status \in {"pending", "processing"} THEN SetWd(S, r.id, [w EXCEPT !.maxPrice = r.price]) ELSE S, Tail(rs))

RECURSIVE CancelWalk(_, _)
CancelWalk(S, cs) ==
  IF cs = << >> \/ S.err THEN S
  ELSE LET w == WdOf(S, Head(cs)) IN
       IF w.status = "none" THEN Fail(S)
       ELSE CancelWalk(IF w.status = "pending" THEN SetWd(S, Head(cs), [w EXCEPT !.status = "canceling"]) ELSE S, Tail(cs))


RECURSIVE ParamWalk(_, _, _, _)
ParamWalk(p, tax, conf, minDep) ==
  IF tax # << >> THEN ParamWalk(IF TaxPairOk(Head(tax).rate, Head(tax).max) THEN [p EXCEPT !.maxTax = Head(tax).max, !.taxRate = Head(tax).rate] ELSE p,
                                Tail(tax), conf, minDep)
  ELSE IF conf # << >> THEN ParamWalk(IF Head(conf) # 0 THEN [p EXCEPT !.conf = Head(conf)] ELSE p, tax, Tail(conf), minDep)
  ELSE IF minDep # << >> THEN ParamWalk(IF Head(minDep) > Dust THEN [p EXCEPT !.minDeposit = Head(minDep)] ELSE p, tax, conf, Tail(minDep))
  ELSE p

NoRequests(r) == Len(r.withdraws) + Len(r.rbf) + Len(r.cancel1) + Len(r.tax) + Len(r.conf) + Len(r.minDep) = 0

ElRequests(S, r) ==
  IF NoRequests(r) THEN S
  ELSE LET S0 == [S EXCEPT !.err = FALSE] @@ [rej |-> << >>]
           S1 == WithdrawWalk(S0, r.withdraws)
           S2 == [[f \in DOMAIN S |-> S1[f]] EXCEPT !.q.rejected = @ \o S1.rej]
           S3 == RbfWalk(S2, r.rbf)
           S4 == IF S3.err THEN S3 ELSE CancelWalk(S3, r.cancel1)
       IN IF S4.err THEN Fail(S) ELSE [S4 EXCEPT !.params = ParamWalk(@, r.tax, r.conf, r.minDep)]

(***************************************************************************)
(* Delivery queue: what the next execution payload must carry for this      *)
(* module, in order: <=1 block hash, <=8 deposits, <=8 paid + rejected.     *)
(***************************************************************************)
Take(s, n) == SubSeq(s, 1, Min(Len(s), n))
Drop(s, n) == SubSeq(s, Min(Len(s), n) + 1, Len(s))

Due(S) ==
  LET hs == IF S.q.cursor < S.tip THEN << [kind |-> "newblock", hash |-> S.hashes[S.q.cursor + 1]] >> ELSE << >>
      ds == Take(S.q.deposits, MaxDepositTx)
      ps == Take(S.q.paid, MaxWithdrawalTx)
      rs == Take(S.q.rejected, MaxWithdrawalTx - Len(ps))
  IN [hashes |-> hs, deposits |-> ds, paid |-> ps, rejected |-> rs]

DueCount(S) == LET d == Due(S) IN Len(d.hashes) + Len(d.deposits) + Len(d.paid) + Len(d.rejected)

Deliver(S) ==
  LET d == Due(S) IN
  [S EXCEPT !.q = [cursor |-> @.cursor + Len(d.hashes), deposits |-> Drop(@.deposits, Len(d.deposits)),
                   paid |-> Drop(@.paid, Len(d.paid)), rejected |-> Drop(@.rejected, Len(d.rejected))],
            !.nonce = @ + DueCount(S)]

(***************************************************************************)
(* Invariants.                                                              *)
(***************************************************************************)
ParamsInvariant(S) == ParamsSafe(S.params)

Terminal == {"paid", "canceled"}
\* allowed status edges (C05)
Edge(a, b) == \/ a = b
              \/ a = "none" /\ b \in {"pending", "canceled"}
              \/ a = "pending" /\ b \in {"canceling", "processing"}
              \/ a = "canceling" /\ b \in {"processing", "canceled"}
              \/ a = "processing" /\ b = "paid"

QueueSane(S) ==
  /\ S.q.cursor <= S.tip
  /\ \A i, j \in DOMAIN S.q.paid : i # j => S.q.paid[i].id # S.q.paid[j].id
  /\ \A i, j \in DOMAIN S.q.rejected : i # j => S.q.rejected[i] # S.q.rejected[j]
  /\ \A i \in DOMAIN S.q.paid : S.q.paid[i].id \notin Range(S.q.rejected)
=============================================================================
