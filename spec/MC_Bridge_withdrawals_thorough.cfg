CONSTANTS
  MaxDepositTx = 1
  MaxWithdrawalTx = 2
  Network = "regtest"
  Family = "withdrawals"
  WdIds = {1, 2}
  MaxSteps = 8
  TaxRates = {0}
  TaxMaxes = {0}
  MinDeps = {0}
  Confs = {0}
  InitSets = {"plain"}
INIT InitAll
NEXT Next
CONSTRAINT Bound
INVARIANTS NotifiedOnce NotifiedMatchesStatus ProcessingHasBatch PaidAmountIsOutput QueueOk
PROPERTIES EdgesOk TerminalAbsorbing BatchesWithinTerms
VIEW View
CHECK_DEADLOCK FALSE
