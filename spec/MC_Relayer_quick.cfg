CONSTANTS
  Members = {1,2,3}
  Period = 2
  AcceptTimeout = 1
  MaxTime = 3
  MaxSeq = 1
  MaxEpoch = 2
  InitVoterSet = {2}
  MaxIssued = 1
INIT Init
NEXT Next
CONSTRAINT Bound
INVARIANTS TypeOK GroupWellFormed QueuesWellFormed NeverHalts SeqIsLogLength NoVoteTwice
PROPERTIES SeqStep RejectChangesNothing EpochStep ElectionTimely JoinOnlyByProof
CHECK_DEADLOCK FALSE
