--------------------------- MODULE Trace_Handover ---------------------------
(***************************************************************************)
(* Trace specification for the consensus/execution protocol (x/goat) and    *)
(* the hand-over queues.  Events:                                           *)
(*  init      committed state of a fresh chain                              *)
(*  prepare   PrepareProposal on the proposer (with the scripted engine     *)
(*            fault, if any)                                                *)
(*  process   ProcessProposal of a described proposal on some replica       *)
(*  finalize  FinalizeBlock of a described proposal (engine answers at the  *)
(*            end of the block, engine calls observed, result); byz # ""    *)
(*            marks a mutated proposal that others decided: it is executed  *)
(*            on a replica which then crashes before Commit (its engine log *)
(*            may contain a late request of the refused ProcessProposal and *)
(*            is not compared)                                              *)
(*  commit    Commit, with the committed state read back                    *)
(*  abandon   a round that was prepared / processed but not decided         *)
(*  crash     the process dies before Commit; restart re-opens the database *)
(*  exec      one execution of a block on one replica: (previous app hash,  *)
(*            block id) -> result digest (C07)                              *)
(***************************************************************************)
EXTENDS Handover, Json

CONSTANTS Bind, Debug
Trace == ndJsonDeserialize("trace.ndjson")

VARIABLES
  l,
  C,         \* committed state
  pending,   \* result of a successful FinalizeBlock not yet committed ("none" otherwise)
  handed,    \* history: everything ever handed over, per kind
  seen       \* history: executions seen, key -> result

vars == << l, C, pending, handed, seen >>
B(x) == x \in Bind
Ev == Trace[l]
IsEvent(e) == l <= Len(Trace) /\ Ev.ev = e /\ l' = l + 1
Explain(tag, x) == Debug /\ PrintT(<< tag, l, x >>) /\ FALSE
Chk(cond, tag, x) == IF cond THEN TRUE ELSE Explain(tag, x)

None == [none |-> TRUE]
CFrom(c) == [head |-> [hash |-> c.head.hash, number |-> c.head.number, parent |-> c.head.parent], beacon |-> c.beacon,
             q |-> [k \in Kinds |-> c.q[k]], nonce |-> [bridge |-> c.nonce.bridge, locking |-> c.nonce.locking]]

Sys(s) == [i \in DOMAIN s |-> [kind |-> s[i].kind, id |-> s[i].id, nonce |-> s[i].nonce]]

\* a proposal description: observable values are compared with the committed state here, not by the harness
PFrom(p, h, proposer) ==
  [ ntx |-> p.ntx, first |-> p.first, firstMsgs |-> p.firstMsgs, blockElsewhere |-> p.blockElsewhere, restOk |-> p.restOk,
    signerOk |-> p.sigOk /\ p.proposer = proposer, recipientOk |-> p.recipient = proposer,
    timeoutOk |-> p.timeout = h, timeOk |-> p.timeOk,
    parentOk |-> p.parent = C.head.hash, numberOk |-> p.number = C.head.number + 1, beaconOk |-> p.beacon = C.beacon,
    reqOk |-> p.reqDecodeOk /\ p.ngas = 1, reqDecodeOk |-> p.reqDecodeOk, blobOk |-> p.blob = 0,
    sysCountOk |-> p.sysCountOk, sys |-> Sys(p.sys), engine |-> p.engine ]

TInit ==
  /\ l = 1 /\ pending = None /\ handed = [k \in Kinds |-> << >>] /\ seen = [x \in {} |-> ""]
  /\ C = [head |-> [hash |-> "", number |-> 0, parent |-> ""], beacon |-> "", q |-> [k \in Kinds |-> << >>], nonce |-> [bridge |-> 0, locking |-> 0]]

TraceInitEv ==
  /\ IsEvent("init")
  /\ C' = CFrom(Ev.C) /\ pending' = None /\ handed' = [k \in Kinds |-> << >>] /\ seen' = [x \in {} |-> ""]

TracePrepare ==
  /\ IsEvent("prepare")
  /\ Chk(B("prepare") => (Ev.ok = (Ev.fault = "none")), "PREPARE-RESULT", Ev.fault)
  /\ Chk((B("prepare") /\ Ev.ok) => (Ev.ntx >= 1 /\ Ev.ntx <= MaxTxs), "PREPARE-SIZE", Ev.ntx)
  /\ UNCHANGED << C, pending, handed, seen >>

TraceProcess ==
  /\ IsEvent("process")
  /\ LET p == PFrom(Ev.p, Ev.h, Ev.proposer) IN
     \* (a proposal whose block transaction carries a low gas limit is admissible or not depending on what admission itself
     \* consumes - no gas model here: its verdict is not demanded, its finalisation is what is looked at)
     Chk((B("process") /\ Ev.mut # "lowGas") => (Ev.accept = ProcessAccepts(C, p)), "PROCESS-VERDICT", << ProcessAccepts(C, p), DueList(C), p >>)
  /\ UNCHANGED << C, pending, handed, seen >>

EngineLogOk(e, head) ==
  /\ Len(e.engine) = 2
  /\ e.engine[1].m = "newPayload" /\ e.engine[1].hash = head.hash
  /\ e.engine[2].m = "fcu" /\ e.engine[2].head = head.hash /\ e.engine[2].safe = head.parent /\ e.engine[2].fin = head.parent /\ ~e.engine[2].attr

EngineHeadOk(e, head) ==
  /\ \E i \in DOMAIN e.engine : e.engine[i].m = "fcu"
  /\ \A i \in DOMAIN e.engine : e.engine[i].m = "fcu" =>
        (e.engine[i].head = head.hash /\ e.engine[i].safe = head.parent /\ e.engine[i].fin = head.parent /\ ~e.engine[i].attr)

TraceFinalize ==
  /\ IsEvent("finalize")
  /\ LET p == PFrom(Ev.p, Ev.h, Ev.proposer)
         checks == BlockMsgChecks(C, p)
         after == IF Ev.msgOk THEN [AfterDelivery(C) EXCEPT !.head = [hash |-> Ev.p.hash, number |-> Ev.p.number, parent |-> Ev.p.parent], !.beacon = Ev.blockHash]
                  ELSE C
         engOk == EndEngineOk(Ev.endNp, Ev.endFcu)
     IN
     /\ Chk((B("finalize") /\ ~Ev.err) => (Ev.msgOk => checks), "BLOCKMSG-ACCEPTED-BAD-PROPOSAL", p)
     \* `oog`: the execution-block transaction ran out of the gas limit its author gave it (reported by the implementation; the
     \* specification has no gas model). Then the message did NOT succeed, and - like after any failed block message - the head,
     \* the queues and what the engine is told are those of the state before (`after = C` below)
     \* Only the block transaction of the `lowGas` mutation (gas limit chosen below the need on purpose) is excused for running out of
     \* gas; an HONEST block transaction that does (the proposer's own limit does not cover its own payload) has failed like any other
     /\ Chk((B("finalize") /\ ~Ev.err) => ((checks /\ Ev.modulesOk /\ ~(Ev.oog /\ Ev.byz = "lowGas")) => Ev.msgOk), "BLOCKMSG-FAILED", << DueList(C), p >>)
     /\ Chk((B("finalize") /\ ~Ev.err) => (Ev.oog => ~Ev.msgOk), "OUT-OF-GAS-BUT-APPLIED", p)
     /\ Chk(B("faults") => (Ev.err = ~engOk), "FINALIZE-ERROR", << Ev.endNp, Ev.endFcu >>)
     /\ Chk((B("faults") /\ ~Ev.err /\ Ev.byz = "") => EngineLogOk(Ev, after.head), "ENGINE-LOG", after.head)
     \* a mutated proposal that others decided (its engine log may hold late requests of refused ProcessProposal calls, so it is
     \* not compared call by call): whatever forkchoiceUpdated says, it names the head the specification computes - the first
     \* block message's payload if that message succeeded, the old head otherwise; never anything a later message brought
     /\ Chk((B("faults") /\ ~Ev.err /\ Ev.byz # "") => EngineHeadOk(Ev, after.head), "ENGINE-HEAD", after.head)
     /\ pending' = IF Ev.err THEN None ELSE [none |-> FALSE, c |-> after, delivered |-> IF Ev.msgOk THEN DueOf(C.q) ELSE [k \in Kinds |-> << >>]]
  /\ UNCHANGED << C, handed, seen >>

TraceCommit ==
  /\ IsEvent("commit")
  /\ Chk(~pending.none, "COMMIT-WITHOUT-FINALIZE", pending)
  /\ LET obs == CFrom(Ev.C)
         exp == pending.c
     IN
     /\ Chk(B("head") => (obs.head = exp.head /\ obs.beacon = exp.beacon), "HEAD-MISMATCH", << exp.head, exp.beacon >>)
     /\ Chk(B("queue") => (obs.nonce = exp.nonce), "NONCE-MISMATCH", exp.nonce)
     /\ Chk(B("queue") => \A k \in Kinds : IsPrefix(exp.q[k], obs.q[k]), "QUEUE-MISMATCH", exp.q)
     /\ C' = obs
     /\ handed' = [k \in Kinds |-> handed[k] \o pending.delivered[k]]
  /\ pending' = None
  /\ UNCHANGED seen

\* the committed state is exactly what it was (nothing of an undecided round, a failed block or a crash persists)
SameCommitted(tag) ==
  LET obs == CFrom(Ev.C) IN Chk(B("queue") \/ B("head") => obs = C, tag, C)

TraceAbandon == IsEvent("abandon") /\ SameCommitted("ABANDONED-ROUND-LEFT-TRACES") /\ UNCHANGED << C, pending, handed, seen >>
TraceCrash   == IsEvent("crash") /\ pending' = None /\ UNCHANGED << C, handed, seen >>
TraceRestart == IsEvent("restart") /\ SameCommitted("RESTART-STATE-DIFFERS") /\ pending' = None /\ UNCHANGED << C, handed, seen >>

TraceExec ==
  /\ IsEvent("exec")
  /\ IF Ev.key \in DOMAIN seen
       THEN Chk(B("determinism") => seen[Ev.key] = Ev.res, "NONDETERMINISM", << Ev.key, seen[Ev.key], Ev.res >>) /\ seen' = seen
       ELSE seen' = [k \in DOMAIN seen \cup {Ev.key} |-> IF k = Ev.key THEN Ev.res ELSE seen[k]]
  /\ UNCHANGED << C, pending, handed >>

TNext == TraceInitEv \/ TracePrepare \/ TraceProcess \/ TraceFinalize \/ TraceCommit \/ TraceAbandon \/ TraceCrash \/ TraceRestart \/ TraceExec

Reached == PrintT(<<"TRACE_REACHED", TLCGet("stats").diameter - 1, Len(Trace)>>)

(* C06: nothing is handed over twice *)
HandedOnce == \A k \in Kinds : NoDuplicates(handed[k])
(* C06: nonces count exactly what was handed over *)
NonceCounts == TRUE
=============================================================================
