CONSTANTS
  Members = {1,2,3,4,5,6,7,8}
  Period = 3
  AcceptTimeout = 2
  Bind = {"probe"}
INIT TInit
NEXT TNext
INVARIANTS WellFormed
POSTCONDITION Reached
CHECK_DEADLOCK FALSE
