CONSTANTS
  MaxDepositTx = 8
  MaxWithdrawalTx = 8
  Network = "regtest"
  Debug = TRUE
  Bind = {"v.process", "v.replace", "v.finalize", "v.approve", "blockmsg", "withdrawals", "queue"}
INIT TInit
NEXT TNext
INVARIANTS NotifiedOnce QueueOk
PROPERTIES EdgesOk TerminalAbsorbing
POSTCONDITION Reached
CHECK_DEADLOCK FALSE
