------------------------------- MODULE Relayer -------------------------------
(***************************************************************************)
(* x/relayer: the relayer group (one proposer + voters), voter boarding,    *)
(* elections, the proposal sequence and BLS-quorum verification of voted    *)
(* proposals.  One action per handler / block hook, guards in the order the *)
(* code evaluates them.                                                     *)
(*                                                                         *)
(* Ideal crypto: a vote is the record [doc, signers]; an aggregate          *)
(* signature verifies under a bag of keys iff it was produced by exactly    *)
(* those key holders over exactly that sign-doc.                            *)
(*                                                                         *)
(* Members are small integers ordered like their address bytes.  Time is an *)
(* integer number of ticks.                                                 *)
(***************************************************************************)
EXTENDS Integers, Sequences, FiniteSets, TLC, RelayerArith

CONSTANTS
  Members,        \* all identities that may ever appear
  Period,         \* electing period (ticks)
  AcceptTimeout   \* accept-proposer timeout (ticks); 0 disables the timeout election

VARIABLES
  proposer,     \* Members
  voters,       \* Seq(Members): relayer.Voters, in the code's order
  epoch,
  lastElected,
  accepted,     \* relayer.ProposerAccepted
  rec,          \* [Members -> voter record]: status "none" = no entry in the Voters map
  onQ, offQ,    \* the boarding queues
  seq,          \* proposal sequence
  randao,       \* Seq of vote ids: the accumulator is the hash chain over them
  pubkeys,      \* set of registered relayer Bitcoin keys (ids)
  accounts,     \* set of Members that own an auth account
  halted        \* EndBlocker returned an error (the chain stops)

rvars == << proposer, voters, epoch, lastElected, accepted, rec, onQ, offQ, seq, randao, pubkeys, accounts, halted >>

NoRec == [status |-> "none", key |-> "none", height |-> 0]
\* status: none | pending | on | off | active      key: "hash" while pending (the 32-byte key hash), "key" afterwards

Range(s) == { s[i] : i \in DOMAIN s }
SeqMinus(s, S) == SelectSeq(s, LAMBDA x : x \notin S)
MemberSet == {proposer} \cup Range(voters)


(***************************************************************************)
(* The sign-doc every voted proposal is signed over.                        *)
(***************************************************************************)
SignDoc(chain, sq, ep, kind, prop, payload) ==
  [chain |-> chain, seq |-> sq, epoch |-> ep, kind |-> kind, proposer |-> prop, payload |-> payload]

CurrentDoc(kind, payload) == SignDoc("this", seq, epoch, kind, proposer, payload)

(* A voted message as the relayer module sees it:                            *)
(*   pf      proposer field of the message                                   *)
(*   mseq, mepoch   the sequence / epoch fields of the Votes sub-message      *)
(*   marks   set of bit positions set in the bitmap (0-based, any naturals)  *)
(*   signers set of Members (or outsiders) whose signatures were aggregated  *)
(*   doc     the sign-doc they signed                                        *)
(*   sigOk   the signature bytes decode to a curve point                     *)
KeysFor(marks) == {proposer} \cup { voters[i + 1] : i \in { j \in marks : j < Len(voters) } }

\* "genuine two-thirds quorum" (C01), as the repaired code checks it, in code order
QuorumOk(m, kind, payload) ==
  /\ m.pf = proposer
  /\ m.mseq = seq
  /\ m.mepoch = epoch
  /\ Cardinality(m.marks) + 1 >= Threshold(Len(voters))
  /\ Cardinality(m.marks) <= Len(voters)
  /\ \A j \in m.marks : j < Len(voters)            \* every mark denotes a current voter
  /\ rec[proposer].key = "key"
  /\ \A j \in m.marks : rec[voters[j + 1]].key = "key"
  /\ m.sigOk
  /\ m.doc = CurrentDoc(kind, payload)
  /\ m.signers = KeysFor(m.marks)

(* Effects on the relayer module of an accepted voted proposal with vote id vid. *)
AcceptVoted(vid) ==
  /\ seq' = seq + 1
  /\ randao' = Append(randao, vid)
  /\ accepted' = TRUE
  /\ UNCHANGED << proposer, voters, epoch, lastElected, rec, onQ, offQ, accounts, halted >>

(* A non-voted relayer/bridge message by the proposer: only the implicit acceptance. *)
NonVotedOk(pf) == pf = proposer
AcceptNonVoted ==
  /\ accepted' = TRUE
  /\ UNCHANGED << proposer, voters, epoch, lastElected, rec, onQ, offQ, seq, randao, pubkeys, accounts, halted >>

(***************************************************************************)
(* Execution-layer membership requests (inside the block message).          *)
(***************************************************************************)
RECURSIVE ApplyAdds(_, _, _)
ApplyAdds(r, adds, h) ==
  IF adds = << >> THEN r
  ELSE LET a == Head(adds) IN
       ApplyAdds(IF r[a].status = "none" THEN [r EXCEPT ![a] = [status |-> "pending", key |-> "hash", height |-> h]] ELSE r,
                 Tail(adds), h)

\* returns <<rec, offQ>> after processing the removal list; `active` is the running count
RECURSIVE ApplyRemoves(_, _, _, _)
ApplyRemoves(r, q, rms, active) ==
  IF rms = << >> THEN << r, q >>
  ELSE LET a == Head(rms) IN
       IF r[a].status # "active" THEN ApplyRemoves(r, q, Tail(rms), active)
       ELSE IF active - 1 < 1 THEN << r, q >>                       \* would empty the group: disregard and stop
       ELSE ApplyRemoves([r EXCEPT ![a].status = "off"], Append(q, a), Tail(rms), active - 1)

ElRequests(adds, removes, h) ==
  LET r1 == ApplyAdds(rec, adds, h)
      res == IF removes = << >> THEN << r1, offQ >>
             ELSE ApplyRemoves(r1, offQ, removes, Len(voters) + 1 - Len(offQ))
  IN /\ rec' = res[1]
     /\ offQ' = res[2]
     /\ UNCHANGED << proposer, voters, epoch, lastElected, accepted, onQ, seq, randao, pubkeys, accounts, halted >>

(***************************************************************************)
(* MsgNewVoter: the proposer registers a pending voter with proofs of       *)
(* possession.  p = [pf, voter, sizesOk, keyHashOk, txProofOk, blsProofOk]  *)
(* where the two proofs are valid iff they were made by the holder of the   *)
(* respective key over (chain, pf, epoch, height, address, key hash).       *)
(***************************************************************************)
NewVoterOk(p) ==
  /\ p.sizesOk
  /\ p.pf = proposer
  /\ p.voter \in Members
  /\ rec[p.voter].status = "pending"
  /\ p.keyHashOk
  /\ p.txProofOk
  /\ p.blsProofOk

NewVoterApply(p) ==
  LET v == p.voter IN
  /\ accepted' = TRUE
  /\ accounts' = accounts \cup {v}
  /\ IF v \in accounts
       THEN /\ rec' = [rec EXCEPT ![v] = [@ EXCEPT !.status = "off", !.key = "key"]]
            /\ offQ' = Append(offQ, v)
            /\ onQ' = onQ
       ELSE /\ rec' = [rec EXCEPT ![v] = [@ EXCEPT !.status = "on", !.key = "key"]]
            /\ onQ' = Append(onQ, v)
            /\ offQ' = offQ
  /\ UNCHANGED << proposer, voters, epoch, lastElected, seq, randao, pubkeys, halted >>

(***************************************************************************)
(* MsgAcceptProposer (does not go through the implicit acceptance).         *)
(***************************************************************************)
AcceptProposerOk(pf, ep, now) ==
  /\ pf = proposer
  /\ ~accepted
  /\ ep = epoch
  /\ ~(now - lastElected > AcceptTimeout)

AcceptProposerApply ==
  /\ accepted' = TRUE
  /\ UNCHANGED << proposer, voters, epoch, lastElected, rec, onQ, offQ, seq, randao, pubkeys, accounts, halted >>

(***************************************************************************)
(* EndBlocker at block time `now`.  idx is the randao-derived index in      *)
(* 0..n-1 (the hash is opaque: any index is possible; the trace binds it).  *)
(***************************************************************************)
ElectionDue(now) ==
  LET dt == now - lastElected IN
  ~(dt < Period /\ (accepted \/ AcceptTimeout = 0 \/ dt < AcceptTimeout))

SwapProposer(vs, idx) == [vs EXCEPT ![idx + 1] = proposer]

(* The result of EndBlocker as a record (so that the trace specification can compare it field by field). *)
Same == [proposer |-> proposer, voters |-> voters, epoch |-> epoch, lastElected |-> lastElected, accepted |-> accepted,
         rec |-> rec, onQ |-> onQ, offQ |-> offQ, halted |-> halted]

EndResult(now, idx) ==
  IF ~ElectionDue(now) THEN Same
  ELSE
    LET on  == onQ # << >>
        off == offQ # << >>
        recOn == [m \in Members |-> IF m \in Range(onQ) THEN [rec[m] EXCEPT !.status = "active"] ELSE rec[m]]
        vs1 == IF on THEN voters \o onQ ELSE voters
        offSet == Range(offQ)
        recOff == [m \in Members |-> IF off /\ m \in offSet THEN NoRec ELSE recOn[m]]
        removedP == off /\ proposer \in offSet
        vs2 == IF off THEN SeqMinus(vs1, offSet) ELSE vs1
        base == [Same EXCEPT !.epoch = epoch + 1, !.lastElected = now, !.rec = recOff,
                             !.onQ = IF on \/ off THEN << >> ELSE onQ, !.offQ = IF on \/ off THEN << >> ELSE offQ]
    IN
    IF removedP /\ vs2 = << >>
      THEN [Same EXCEPT !.halted = TRUE]            \* "delete too many voters": EndBlocker fails
    ELSE IF removedP
      THEN [base EXCEPT !.proposer = vs2[1], !.voters = Tail(vs2), !.accepted = FALSE]
    ELSE IF Len(vs2) = 0
      THEN [base EXCEPT !.voters = vs2, !.accepted = TRUE]
    ELSE LET k == IF Len(vs2) > 1 THEN idx ELSE 0 IN
      IF k \notin 0..(Len(vs2) - 1) THEN [Same EXCEPT !.halted = TRUE]     \* impossible index (never chosen)
      ELSE [base EXCEPT !.proposer = vs2[k + 1], !.voters = SwapProposer(vs2, k), !.accepted = FALSE]

\* number of voters the election (if any) draws the new proposer from
ElectorateSize(now) ==
  IF ~ElectionDue(now) THEN 0
  ELSE Len(SeqMinus(voters \o onQ, Range(offQ)))

EndBlock(now, idx) ==
  LET r == EndResult(now, idx) IN
  /\ proposer' = r.proposer /\ voters' = r.voters /\ epoch' = r.epoch /\ lastElected' = r.lastElected
  /\ accepted' = r.accepted /\ rec' = r.rec /\ onQ' = r.onQ /\ offQ' = r.offQ /\ halted' = r.halted
  /\ UNCHANGED << seq, randao, pubkeys, accounts >>

(***************************************************************************)
(* Export ; InitGenesis.  The queues are rebuilt from the voter statuses in *)
(* address order.                                                           *)
(***************************************************************************)
SortedSeq(S) ==
  LET RECURSIVE Build(_)
      Build(T) == IF T = {} THEN << >> ELSE LET x == CHOOSE y \in T : \A z \in T : y <= z IN << x >> \o Build(T \ {x})
  IN Build(S)

Reimport ==
  /\ onQ'  = SortedSeq({ m \in Members : rec[m].status = "on" })
  /\ offQ' = SortedSeq({ m \in Members : rec[m].status = "off" })
  /\ UNCHANGED << proposer, voters, epoch, lastElected, accepted, rec, seq, randao, pubkeys, accounts, halted >>

(***************************************************************************)
(* Invariants (C16) - the group stays well-formed.                          *)
(***************************************************************************)
Distinct(s) == \A i, j \in DOMAIN s : i # j => s[i] # s[j]

GroupWellFormed ==
  /\ proposer \in Members
  /\ proposer \notin Range(voters)
  /\ Distinct(voters)
  /\ \A m \in MemberSet : rec[m].status \in {"active", "off"}
  /\ \A m \in MemberSet : rec[m].key = "key"
  /\ Cardinality(MemberSet) >= 1

QueuesWellFormed ==
  /\ Distinct(onQ) /\ Distinct(offQ)
  /\ \A m \in Range(onQ) : rec[m].status = "on" /\ m \notin MemberSet
  /\ \A m \in Range(offQ) : rec[m].status = "off"
  /\ \A m \in Members : rec[m].status = "on" => m \in Range(onQ)
  /\ \A m \in Members : rec[m].status = "off" => m \in Range(offQ)
  /\ \A m \in Members : rec[m].status = "active" => m \in MemberSet
  \* removals never empty the group: some member is not queued for removal
  /\ \E m \in MemberSet : m \notin Range(offQ)

NeverHalts == ~halted

SeqIsLogLength == seq = Len(randao)

TypeOK ==
  /\ proposer \in Members
  /\ epoch \in Nat /\ seq \in Nat
  /\ accepted \in BOOLEAN /\ halted \in BOOLEAN
  /\ accounts \subseteq Members
=============================================================================
