"""Shared machinery for the /verif checks: harness build, TLC runs, trace validation, evidence."""
import json, os, re, shutil, subprocess, sys, tempfile, time, hashlib
from concurrent.futures import ThreadPoolExecutor

VERIF = os.path.dirname(os.path.dirname(os.path.abspath(__file__)))
SPEC = os.path.join(VERIF, "spec")
BUILD = os.path.join(VERIF, "build")
HARNESS = os.path.join(VERIF, "harness")
REPLAYS = os.path.join(VERIF, "replays")
EVIDENCE = os.path.join(VERIF, "evidence")
KNOWN = os.path.join(VERIF, "known_findings.txt")
NCPU = os.cpu_count() or 4

EXIT_OK, EXIT_VIOLATION, EXIT_INFRA = 0, 1, 2


class Infra(Exception):
    """Infrastructure trouble (build failure, TLC crash, dead driver): exit 2, never a violation."""


def goenv():
    e = dict(os.environ)
    e.update(GOFLAGS="-mod=mod", GOPROXY="off", GOSUMDB="off", GOTOOLCHAIN="local")
    return e


def log(*a):
    print("[verif]", *a, file=sys.stderr, flush=True)


def build(race=False, tags="verif"):
    """Rebuild the harness against /repo's current working tree (incremental)."""
    os.makedirs(BUILD, exist_ok=True)
    shutil.copyfile("/repo/go.sum", os.path.join(HARNESS, "go.sum"))
    out = os.path.join(BUILD, "goatverif-race" if race else "goatverif")
    cmd = ["go", "build", "-tags", tags, "-o", out]
    if race:
        cmd.append("-race")
    elif os.environ.get("VERIF_COVERDIR"):     # bin/coverage: which statements of the repository do the drivers execute
        out = os.path.join(BUILD, "goatverif-cover")
        cmd = ["go", "build", "-tags", tags, "-cover", "-coverpkg=goatverif/...,github.com/goatnetwork/goat/x/...,github.com/goatnetwork/goat/app/...,github.com/goatnetwork/goat/pkg/...", "-o", out]
    cmd.append("./cmd/goatverif")
    t0 = time.time()
    p = subprocess.run(cmd, cwd=HARNESS, env=goenv(), capture_output=True, text=True, errors="replace")
    if p.returncode != 0:
        raise Infra("harness build failed:\n" + p.stdout + p.stderr)
    log("built %s in %.1fs" % (os.path.basename(out), time.time() - t0))
    return out


DRIVER_TIMEOUT = int(os.environ.get("VERIF_DRIVER_TIMEOUT", "3600"))
TIMED_OUT = []      # drivers killed after DRIVER_TIMEOUT seconds (their partial traces are still validated)
RC_TIMEOUT = -999


def driver(binary, args, cwd, timeout=None, env=None):
    """Run the Go driver as a child process. Returns (returncode, stdout, stderr)."""
    timeout = timeout or DRIVER_TIMEOUT
    e = goenv()
    if env:
        e.update(env)
    if os.environ.get("VERIF_COVERDIR"):
        e["GOCOVERDIR"] = os.environ["VERIF_COVERDIR"]
    try:
        p = subprocess.run([binary] + [str(a) for a in args], cwd=cwd, env=e, capture_output=True, text=True, errors="replace", timeout=timeout)
    except subprocess.TimeoutExpired:
        return RC_TIMEOUT, "", "driver timed out after %ds: %s" % (timeout, " ".join(map(str, args)))
    return p.returncode, p.stdout, p.stderr


class TlcResult:
    def __init__(self, out, rc):
        self.out, self.rc = out, rc
        m = re.search(r"(\d+) states generated, (\d+) distinct states found", out)
        self.generated = int(m.group(1)) if m else 0
        self.distinct = int(m.group(2)) if m else 0
        m = re.search(r"depth of the complete state graph search is (\d+)", out)
        self.depth = int(m.group(1)) if m else 0
        self.violated = re.findall(r"Invariant (\S+) is violated", out)
        self.violated += re.findall(r"Action property (\S+) is violated", out)
        if "Temporal properties were violated" in out:
            self.violated.append("temporal")
        self.completed = "Model checking completed. No error has been found." in out or "Finished in" in out and not self.violated and "Error:" not in out
        m = re.search(r'<<"TRACE_REACHED", (\d+), (\d+)>>', out)
        self.reached, self.total = (int(m.group(1)), int(m.group(2))) if m else (None, None)
        self.error = "Error:" in out and not self.violated
        # simulation statistics
        m = re.search(r"(\d+) states checked", out)
        self.sim_states = int(m.group(1)) if m else 0


def tlc(spec, cfg, cwd, workers=1, extra=(), timeout=1800, heap=None, deque=False):
    md = tempfile.mkdtemp(prefix="md", dir=cwd)
    cmd = ["java", "-XX:+UseParallelGC"]
    if heap:
        cmd.append("-Xmx%s" % heap)
    cmd += ["-Xss256m"]
    if deque:
        cmd.append("-Dtlc2.tool.queue.IStateQueue=StateDeque")
    cmd += ["-cp", "/opt/veriftools/tla/tla2tools.jar:/opt/veriftools/tla/CommunityModules-deps.jar", "tlc2.TLC",
            os.path.join(SPEC, spec), "-config", os.path.join(SPEC, cfg), "-workers", str(workers), "-metadir", md, "-noGenerateSpecTE"]
    cmd += list(extra)
    try:
        p = subprocess.run(cmd, cwd=cwd, capture_output=True, text=True, errors="replace", timeout=timeout)
    except subprocess.TimeoutExpired:
        raise Infra("TLC timed out on %s/%s" % (spec, cfg))
    finally:
        shutil.rmtree(md, ignore_errors=True)
    return TlcResult(p.stdout + p.stderr, p.returncode)


def model_check(spec, cfg, cwd, workers=None, timeout=3000, extra=(), heap="12g"):
    """Exhaustive (or simulation) run of a specification alone. A counterexample here is a
    specification-level result: it is reported as infrastructure trouble (exit 2), not as a violation
    of the code."""
    r = tlc(spec, cfg, cwd, workers=workers or min(NCPU, 8), timeout=timeout, extra=extra, heap=heap)
    if r.violated or r.error or not (r.distinct or r.sim_states):
        raise Infra("specification %s/%s did not model-check cleanly:\n%s" % (spec, cfg, r.out[-6000:]))
    return r


def prove(module, cwd, timeout=900):
    """Check a TLAPS proof module (spec/<module>.tla and the modules it extends) with tlapm. Returns the evidence entry
    dict(module, obligations, discharged). An unproved obligation is a problem of the specification: exit 2, never a violation."""
    d = tempfile.mkdtemp(prefix="tlaps", dir=cwd)
    for f in os.listdir(SPEC):
        if f.endswith("Arith.tla"):
            shutil.copy(os.path.join(SPEC, f), d)
    t0 = time.time()
    try:
        p = subprocess.run(["tlapm", "--threads", str(min(NCPU, 16)), "--cleanfp", module + ".tla"], cwd=d, capture_output=True, text=True, timeout=timeout)
    except subprocess.TimeoutExpired:
        raise Infra("tlapm timed out on %s" % module)
    out = p.stdout + p.stderr
    m = re.search(r"All (\d+) obligations? proved", out)
    if p.returncode != 0 or not m:
        raise Infra("TLAPS did not prove %s:\n%s" % (module, "\n".join(l for l in out.splitlines() if not l.startswith(("Called from", "Raised")))[-4000:]))
    shutil.rmtree(d, ignore_errors=True)
    n = int(m.group(1))
    log("%s: TLAPS proved %d obligations in %.1fs" % (module, n, time.time() - t0))
    return dict(module=module, obligations=n, discharged=n, theorems=re.findall(r"^THEOREM (\w+)", open(os.path.join(SPEC, module + ".tla")).read(), re.M))


def split_trace(path, nchunks, cwd, boundary=None):
    """Split an ndjson trace into chunks (at lines for which boundary(line) is true, default any line)."""
    with open(path) as f:
        lines = f.readlines()
    if not lines:
        return []
    target = max(1, len(lines) // nchunks)
    chunks, cur = [], []
    for ln in lines:
        if len(cur) >= target and (boundary is None or boundary(ln)) and len(chunks) < nchunks - 1:
            chunks.append(cur)
            cur = []
        cur.append(ln)
    if cur:
        chunks.append(cur)
    out = []
    for i, c in enumerate(chunks):
        d = os.path.join(cwd, "chunk%03d" % i)
        os.makedirs(d, exist_ok=True)
        with open(os.path.join(d, "trace.ndjson"), "w") as f:
            f.writelines(c)
        out.append(d)
    return out


class Rejection:
    def __init__(self, chunk_dir, line_no, line, reason, tlc_out):
        self.chunk_dir, self.line_no, self.line, self.reason, self.tlc_out = chunk_dir, line_no, line, reason, tlc_out


def validate_chunk(spec, cfg, chunk_dir, timeout=1800, deque=False, debug_rerun=True):
    r = tlc(spec, cfg, chunk_dir, workers=1, timeout=timeout, heap="3g", deque=deque)
    with open(os.path.join(chunk_dir, "trace.ndjson")) as f:
        lines = f.readlines()
    if r.violated:
        # an invariant of the property was false in an observed state: the state index is the depth reached
        ln = None
        m = re.findall(r"/\\ l = (\d+)", r.out)
        if m:
            ln = int(m[-1]) - 1
        line = lines[ln - 1] if ln and 0 < ln <= len(lines) else ""
        return len(lines), Rejection(chunk_dir, ln, line, "invariant " + ",".join(r.violated), r.out)
    if r.reached is None:
        raise Infra("trace validation of %s crashed:\n%s" % (chunk_dir, r.out[-5000:]))
    if r.total != len(lines):
        raise Infra("trace length mismatch in %s: TLC read %s, file has %d" % (chunk_dir, r.total, len(lines)))
    if r.reached >= r.total:
        return len(lines), None
    bad = r.reached + 1
    out = r.out
    dbg = cfg.replace(".cfg", "_debug.cfg")
    if debug_rerun and os.path.exists(os.path.join(SPEC, dbg)):
        try:
            r2 = tlc(spec, dbg, chunk_dir, workers=1, timeout=timeout, heap="3g", deque=deque)
            i = r2.out.find('<< "')
            j = r2.out.find('<<"TRACE_REACHED"')
            if i >= 0:
                out = "EXPLANATION (what the specification computed vs what was observed):\n" + r2.out[i:j if j > i else i + 6000][:6000] + "\n" + out[-3000:]
        except Infra:
            pass
    return len(lines), Rejection(chunk_dir, bad, lines[bad - 1], "no specification action explains this step", out)


def validate(spec, cfg, trace_path, cwd, nchunks=None, boundary=None, timeout=1800, deque=False):
    """Validate a recorded trace against a trace specification, in parallel chunks.
    Returns (events_validated, [Rejection])."""
    nchunks = nchunks or NCPU
    chunks = split_trace(trace_path, nchunks, cwd, boundary)
    rej, total = [], 0
    with ThreadPoolExecutor(max_workers=NCPU) as ex:
        for n, r in ex.map(lambda d: validate_chunk(spec, cfg, d, timeout, deque), chunks):
            total += n
            if r:
                rej.append(r)
    return total, rej


def known_findings():
    """Parse known_findings.txt: returns {property: {key: text}} of OPEN findings only."""
    out = {}
    if not os.path.exists(KNOWN):
        return out
    for ln in open(KNOWN):
        ln = ln.strip()
        m = re.match(r"open: property=(\S+) key=(\S+) (.*)", ln)
        if m:
            out.setdefault(m.group(1), {})[m.group(2)] = m.group(3)
    return out


def save_replay(prop, seed, rejection, extra_files=(), note=""):
    ts = time.strftime("%Y%m%d-%H%M%S")
    d = os.path.join(REPLAYS, "%s-seed%s-%s" % (prop, seed, ts))
    os.makedirs(d, exist_ok=True)
    if rejection is not None:
        src = os.path.join(rejection.chunk_dir, "trace.ndjson")
        if os.path.exists(src):
            shutil.copyfile(src, os.path.join(d, "trace.ndjson"))
        with open(os.path.join(d, "rejection.txt"), "w") as f:
            f.write("property: %s\nline: %s\nreason: %s\nrejected event: %s\n%s\n\n--- TLC output (tail) ---\n%s\n" % (
                prop, rejection.line_no, rejection.reason, rejection.line.strip(), note, rejection.tlc_out[-8000:]))
    for p in extra_files:
        if os.path.exists(p):
            shutil.copy(p, d)
    return d


def write_evidence(prop, tier, seed, level, coverage, assumptions, wall, violations=0):
    os.makedirs(EVIDENCE, exist_ok=True)
    ev = dict(property_id=prop, tier=tier, seed=int(seed), level=level, coverage=coverage,
              assumptions=assumptions, wall_s=round(wall, 2), violations=violations)
    with open(os.path.join(EVIDENCE, prop + ".json"), "w") as f:
        json.dump(ev, f, indent=1, sort_keys=True)
        f.write("\n")


def sample_lines(path, k=3):
    out = []
    try:
        with open(path) as f:
            lines = f.readlines()
        if not lines:
            return out
        step = max(1, len(lines) // k)
        for i in range(0, len(lines), step):
            try:
                out.append(json.loads(lines[i]))
            except Exception:
                pass
            if len(out) >= k:
                break
    except OSError:
        pass
    return out


def scratch():
    base = os.environ.get("VERIF_SCRATCH") or tempfile.gettempdir()
    return tempfile.mkdtemp(prefix="goatverif-run-", dir=base)


def run_table_check(prop, tier, seed, work, *, mc, trace, driver_args, key_fn, level, assumptions,
                    rule, race=False, extra_cov=None, boundary=None, nontrivial_fn=None):
    """Generic flow for properties decided by an exhaustively enumerated case table:
       TLC enumerates the cases and checks the design theorems -> the Go replayer runs every case on the
       real code -> TLC validates the recorded verdicts/states against the specification."""
    t0 = time.time()
    binary = build(race=race)
    mc_spec, mc_cfg = mc
    r = model_check(mc_spec, mc_cfg, work)
    log("%s: model checked %s: %d distinct states" % (prop, mc_cfg, r.distinct))
    trace_path = os.path.join(work, "trace.ndjson")
    rc, out, err = driver(binary, driver_args + ["-seed", seed, "-out", trace_path], work)
    if rc != 0 and app_crashed(err):
        d = save_replay(prop, seed, None, extra_files=[trace_path])
        with open(os.path.join(d, "crash.txt"), "w") as f:
            f.write(err[-30000:])
        print("VIOLATION property=%s replay=%s" % (prop, d))
        print("  the application took the process down (unrecovered panic in repository code); last lines:\n" + err[-1200:])
        write_evidence(prop, tier, seed, level, dict(states=r.distinct, transitions=r.generated, rule=rule, node_crashes=1), assumptions,
                       time.time() - t0, violations=1)
        return EXIT_VIOLATION
    if rc != 0:
        raise Infra("driver failed rc=%d\n%s\n%s" % (rc, out[-3000:], err[-3000:]))
    return finish_trace_check(prop, tier, seed, work, trace_path, trace, key_fn, level, assumptions, rule,
                              states=r.distinct, transitions=r.generated, t0=t0, extra_cov=extra_cov,
                              boundary=boundary, nontrivial_fn=nontrivial_fn)


def finish_trace_check(prop, tier, seed, work, trace_path, trace, key_fn, level, assumptions, rule, *,
                       states, transitions, t0, extra_cov=None, boundary=None, nontrivial_fn=None,
                       ntraces=None, deque=False, selftest=True):
    tr_spec, tr_cfg = trace
    known = known_findings().get(prop, {})
    printed_known, violations, total = set(), [], 0
    cur = trace_path
    for attempt in range(12):
        vdir = os.path.join(work, "val%d" % attempt)
        os.makedirs(vdir, exist_ok=True)
        total, rejs = validate(tr_spec, tr_cfg, cur, vdir, boundary=boundary, deque=deque)
        if not rejs:
            break
        drop = set()
        for rj in rejs:
            try:
                k = key_fn(json.loads(rj.line)) if rj.line.strip() else "?"
            except Exception:
                k = "?"
            if k in known:
                if k not in printed_known:
                    print("KNOWN-FINDING: property=%s %s (key=%s)" % (prop, known[k], k))
                    printed_known.add(k)
                drop.add(k)
            else:
                violations.append((rj, k))
        if violations or not drop:
            break
        # remove every event carrying a known key and validate the rest
        nxt = os.path.join(work, "trace_filtered%d.ndjson" % attempt)
        with open(cur) as f, open(nxt, "w") as g:
            for ln in f:
                try:
                    if key_fn(json.loads(ln)) in drop:
                        continue
                except Exception:
                    pass
                g.write(ln)
        cur = nxt
    with open(trace_path) as f:
        all_lines = f.readlines()
    distinct = len(set(hashlib.sha1(re.sub(r'"(inst|i_seq|run)":\d+,?', "", l).encode()).hexdigest() for l in all_lines))
    if nontrivial_fn:
        nontriv = len(set(l for l in all_lines if nontrivial_fn(l)))
    else:
        nontriv = distinct
    cov = dict(states=states, transitions=transitions, traces_validated_against_impl=ntraces if ntraces is not None else total,
               events_validated=total, evaluations=len(all_lines), distinct_nontrivial=nontriv, rule=rule,
               samples=sample_lines(trace_path, 4), exhaustive=True)
    if extra_cov:
        cov.update(extra_cov)
    rc = EXIT_OK
    seen = set()
    for rj, k in violations:
        if k in seen:
            continue
        seen.add(k)
        d = save_replay(prop, seed, rj, note="key: %s" % k)
        print("VIOLATION property=%s replay=%s" % (prop, d))
        print("  rejected event (line %s): %s" % (rj.line_no, rj.line.strip()[:600]))
        print("  reason: %s" % rj.reason)
        rc = EXIT_VIOLATION
    cov["known_findings_reported"] = sorted(printed_known)
    if selftest and rc == EXIT_OK and not printed_known and (tier == "thorough" or os.environ.get("VERIF_SELFTEST")):
        cov["binding_selftest"] = selftest_groups(prop, [(trace_path, trace)], work, seed)
    write_evidence(prop, tier, seed, level, cov, assumptions, time.time() - t0, violations=len(seen))
    return rc


def run_drivers(binary, jobs, work, race=False):
    """jobs: list of (name, args). Runs them in parallel; returns {name: trace_path}. A driver that dies is
    infrastructure trouble unless it reports a crash of the application under test (handled by callers)."""
    outs = {}

    def one(job):
        name, args = job
        path = os.path.join(work, "trace_%s.ndjson" % name)
        rc, out, err = driver(binary, list(args) + ["-out", path], work)
        return name, path, rc, out, err

    crashes = []
    with ThreadPoolExecutor(max_workers=NCPU) as ex:
        for name, path, rc, out, err in ex.map(one, jobs):
            if rc == RC_TIMEOUT and os.path.exists(path):
                # the driver did not finish (an execution that never ends, or an overloaded machine): what it recorded up to
                # then is validated like any other trace - a violation found in it stands - and the timeout itself is reported as
                # infrastructure trouble afterwards (never as a violation)
                lines = open(path, errors="replace").read().split("\n")
                good = []
                for ln in lines:
                    try:
                        json.loads(ln)
                    except ValueError:
                        break
                    good.append(ln)
                open(path, "w").write("".join(g + "\n" for g in good))
                TIMED_OUT.append((name, err))
                if good:
                    outs[name] = path
                    continue
                raise Infra(err)
            if rc != 0:
                if app_crashed(err):
                    crashes.append((name, path, err))
                    continue
                raise Infra("driver %s failed rc=%d\n%s\n%s" % (name, rc, out[-2000:], err[-3000:]))
            outs[name] = path
    if crashes:
        raise AppCrash(crashes)
    return outs


class AppCrash(Exception):
    """The application under test took the whole process down (a panic that nothing recovers, e.g. inside a goroutine it
    started): on a real node this is a crash of the node."""
    def __init__(self, crashes):
        Exception.__init__(self, "application crashed in %d driver(s)" % len(crashes))
        self.crashes = crashes


def app_crashed(stderr):
    """True iff the process died of a Go panic / fatal error whose panicking goroutine was running code of the repository
    (first non-runtime frame under github.com/goatnetwork/goat/), as opposed to the harness's own code."""
    m = re.search(r"^(panic:|fatal error:).*$", stderr, re.M)
    if not m:
        return False
    tail = stderr[m.start():]
    g = re.search(r"^goroutine \d+ \[running\]:\n((?:.*\n)+?)(?:\n|\Z)", tail, re.M)
    frames = re.findall(r"^([\w./\-]+(?:\([^)]*\))?\.[\w.()*\[\]{}]+)\(", (g.group(1) if g else tail), re.M)
    for fr in frames:
        if fr.startswith(("runtime.", "panic(", "runtime/")):
            continue
        return fr.startswith("github.com/goatnetwork/goat/")
    return False


def concat(paths, dest):
    with open(dest, "w") as g:
        for p in paths:
            with open(p) as f:
                shutil.copyfileobj(f, g)
    return dest


def run_stateful_check(prop, tier, seed, work, *, mc_list, groups, key_fn, level, assumptions, rule,
                       race=False, extra_cov=None, nontrivial_fn=None):
    """mc_list: [(spec, cfg)] exhaustive/simulation configs of the specification alone.
       groups: [(trace_spec, trace_cfg, [(name, driver args)])]: traces of one group are validated with one cfg."""
    t0 = time.time()
    global DRIVER_TIMEOUT
    if tier == "quick" and "VERIF_DRIVER_TIMEOUT" not in os.environ:
        DRIVER_TIMEOUT = 1200      # a quick driver job takes well under two minutes on an idle machine
    binary = build(race=race)
    states = transitions = 0
    mc_info = []
    for spec, cfg in mc_list:
        r = model_check(spec, cfg, work)
        states += r.distinct
        transitions += r.generated
        mc_info.append(dict(cfg=cfg, distinct=r.distinct, generated=r.generated, depth=r.depth))
        log("%s: model checked %s: %d distinct / %d generated states" % (prop, cfg, r.distinct, r.generated))
    rc_all, ntr, nev, samples, known_rep = EXIT_OK, 0, 0, [], []
    nviol = 0
    all_traces = []
    infra_notes = []
    for gi, (tspec, tcfg, jobs) in enumerate(groups):
        try:
            paths = run_drivers(binary, jobs, work)
        except AppCrash as ac:
            for name, path, err in ac.crashes:
                d = save_replay(prop, seed, None, extra_files=[p for p in (path,) if os.path.exists(p)], note="driver %s" % name)
                with open(os.path.join(d, "crash.txt"), "w") as f:
                    f.write(err[-30000:])
                print("VIOLATION property=%s replay=%s" % (prop, d))
                print("  the application took the process down (unrecovered panic in repository code); last lines:\n" + err[-1200:])
                nviol += 1
            rc_all = EXIT_VIOLATION
            continue
        except Infra as e:
            if rc_all == EXIT_VIOLATION:      # a violation has already been reported: it stands; the trouble is noted
                infra_notes.append(str(e)[:500])
                continue
            raise
        trace_path = concat([paths[n] for n, _ in jobs], os.path.join(work, "group%d.ndjson" % gi))
        all_traces.append(trace_path)
        n_init = sum(1 for l in open(trace_path) if '"ev":"init"' in l)
        gw = os.path.join(work, "g%d" % gi)
        os.makedirs(gw, exist_ok=True)
        rc = finish_trace_check(prop, tier, seed, gw, trace_path, (tspec, tcfg), key_fn, level, assumptions, rule,
                                states=states, transitions=transitions, t0=t0, boundary=lambda ln: '"ev":"init"' in ln,
                                ntraces=n_init, nontrivial_fn=nontrivial_fn, selftest=False)
        ev = json.load(open(os.path.join(EVIDENCE, prop + ".json")))
        ntr += ev["coverage"]["traces_validated_against_impl"]
        nev += ev["coverage"]["events_validated"]
        samples += ev["coverage"]["samples"][:2]
        known_rep += ev["coverage"].get("known_findings_reported", [])
        nviol += ev.get("violations", 0)
        rc_all = max(rc_all, rc)
    if TIMED_OUT and rc_all == EXIT_OK:
        raise Infra("%d driver(s) did not finish in %ds (their partial traces were accepted): %s" % (len(TIMED_OUT), DRIVER_TIMEOUT, TIMED_OUT[0][1][:300]))
    if TIMED_OUT:
        infra_notes.append("%d driver(s) did not finish in %ds" % (len(TIMED_OUT), DRIVER_TIMEOUT))
    # merged evidence
    kinds = {}
    total_lines = 0
    distinct = set()
    for tp in all_traces:
        for l in open(tp):
            total_lines += 1
            m = re.search(r'"ev":"(\w+)"', l)
            okm = re.search(r'"ok":(true|false)', l)
            k = (m.group(1) if m else "?") + ("/" + okm.group(1) if okm else "")
            kinds[k] = kinds.get(k, 0) + 1
            distinct.add(hashlib.sha1(re.sub(r'"(run|log|vid|payload|reuse)":[^,}]*,?', "", l).encode()).digest())
    cov = dict(states=states, transitions=transitions, traces_validated_against_impl=ntr, events_validated=nev,
               evaluations=total_lines, distinct_nontrivial=len(distinct), rule=rule, samples=samples[:6],
               model_checking=mc_info, event_counts=kinds, known_findings_reported=sorted(set(known_rep)), exhaustive=False)
    if extra_cov:
        cov.update(extra_cov)
    if infra_notes:
        cov["infrastructure_trouble_after_violation"] = infra_notes
    if rc_all == EXIT_OK and (tier == "thorough" or os.environ.get("VERIF_SELFTEST")):
        cov["binding_selftest"] = selftest_groups(prop, [(tp, (g[0], g[1])) for tp, g in zip(all_traces, groups)], work, seed)
    write_evidence(prop, tier, seed, level, cov, assumptions, time.time() - t0, violations=nviol)
    return rc_all


def selftest_groups(prop, traces, work, seed):
    """Run the binding self-test on every accepted (trace, trace configuration) pair; returns the evidence entry."""
    out = []
    for tp, tr in traces:
        try:
            r = binding_selftest(tp, tr, work, k=8, seed=seed)
        except Exception as e:      # never lets the self-test decide anything
            r = dict(tried=0, rejected=0, not_constrained=[], trouble=str(e)[:300])
        r["cfg"] = tr[1]
        out.append(r)
        log("%s: binding self-test %s: %d of %d single-observation corruptions rejected" % (prop, tr[1], r["rejected"], r["tried"]))
    return out


_FLAGS = ("ok", "accept", "admitted", "impl", "again", "same", "identical", "valsEqual", "queriesEqual", "cometOk", "msgOk", "err", "applied", "halted", "errored", "panicked")
_OBS_EVENTS = ("input", "end", "commit", "reimport", "restart", "abandon", "result", "case", "check", "export", "finalize", "process", "prepare",
               "vote", "accept", "newvoter", "blockmsg", "deposit", "exec", "consolidation")


def _mutations(ln, rnd):
    """Candidate single-observation corruptions of one trace line: (description, new line).  Only values the implementation
    REPORTED are touched (verdict flags, the state read back after a step); the scripted inputs are left alone, since a
    different input is just a different, equally valid, history."""
    out = []
    m = re.search(r'"ev":"(\w+)"', ln)
    if m and m.group(1) not in _OBS_EVENTS:
        return out
    evname = m.group(1) if m else "row"
    for f in _FLAGS:
        for a, b in (("true", "false"), ("false", "true")):
            pat = '"%s":%s' % (f, a)
            if pat in ln:
                out.append(("flip %s=%s" % (f, a), ln.replace(pat, '"%s":%s' % (f, b), 1)))
    for key in ('"st":', '"C":', '"after":'):
        k = ln.find(key)
        if k < 0 or evname == "init":
            continue
        nums = [x for x in re.finditer(r'(?<=[:\[,])(\d{1,6})(?=[,\]}])', ln[k:])]
        for x in rnd.sample(nums, min(3, len(nums))):
            a, b = k + x.start(1), k + x.end(1)
            out.append(("bump observed number at col %d (%s)" % (a, ln[max(k, a - 24):a]), ln[:a] + str(int(ln[a:b]) + 1) + ln[b:]))
    return out


def binding_selftest(trace_path, trace, work, k=8, seed=1):
    """Binding demonstration: corrupt ONE recorded observation of an accepted trace (flip a reported verdict, change a
    number in a state the implementation reported) and confirm that the trace specification rejects the corrupted trace.
    Returns dict(tried=, rejected=, missed=[...]) for the evidence.  A miss is not a verdict about the code: it shows a
    recorded field this configuration's slice does not constrain."""
    import random
    rnd = random.Random(seed)
    with open(trace_path) as f:
        lines = f.readlines()
    starts = [i for i, l in enumerate(lines) if '"ev":"init"' in l] or [0]
    todo = []
    for attempt in range(k * 8):
        if len(todo) >= k:
            break
        s0 = rnd.choice(starts)
        nxt = [i for i in starts if i > s0]
        seg = lines[s0:(nxt[0] if nxt else min(len(lines), s0 + 400))]
        if len(seg) < 3:
            continue
        i = rnd.randrange(1, len(seg))
        muts = _mutations(seg[i], rnd)
        if not muts:
            continue
        how, new = rnd.choice(muts)
        todo.append((how, i, seg[:i] + [new] + seg[i + 1:], seg[i]))

    def one(job):
        how, i, mutated, orig = job
        d = tempfile.mkdtemp(prefix="selftest", dir=work)
        with open(os.path.join(d, "trace.ndjson"), "w") as f:
            f.writelines(mutated)
        try:
            n, rej = validate_chunk(trace[0], trace[1], d, debug_rerun=False)
        except Infra:
            rej = True   # the validator choking on a corrupted trace also means "not accepted"
        shutil.rmtree(d, ignore_errors=True)
        return None if rej else "%s in event %d: %s" % (how, i + 1, orig.strip()[:140])
    with ThreadPoolExecutor(max_workers=8) as ex:
        res = list(ex.map(one, todo))
    missed = [r for r in res if r]
    return dict(tried=len(todo), rejected=len(todo) - len(missed), not_constrained=missed)
