// Package vote builds real relayer votes: sign-docs, BLS aggregates and voter bitmaps.
package vote

import (
	"encoding/binary"

	goatcrypto "github.com/goatnetwork/goat/pkg/crypto"
	relayertypes "github.com/goatnetwork/goat/x/relayer/types"
	"goatverif/sim"
)

// Bitmap encodes bit positions in the layout the application decodes (little-endian 64-bit words),
// padded to nbytes (a multiple of 8; 0 = minimal).
func Bitmap(positions []int, nbytes int) []byte {
	max := -1
	for _, p := range positions {
		if p > max {
			max = p
		}
	}
	words := 0
	if max >= 0 {
		words = max/64 + 1
	}
	if nbytes/8 > words {
		words = nbytes / 8
	}
	buf := make([]byte, words*8)
	for _, p := range positions {
		w := binary.LittleEndian.Uint64(buf[(p/64)*8:])
		w |= 1 << uint(p%64)
		binary.LittleEndian.PutUint64(buf[(p/64)*8:], w)
	}
	return buf
}

// Aggregate signs doc with every given member and aggregates the signatures.
// With no signer it returns a syntactically valid signature by an unrelated key.
func Aggregate(signers []*sim.Member, doc []byte) []byte {
	if len(signers) == 0 {
		return nil
	}
	sigs := make([][]byte, 0, len(signers))
	for _, m := range signers {
		sigs = append(sigs, goatcrypto.Sign(m.BlsSK, doc))
	}
	out, err := goatcrypto.AggregateSignatures(sigs)
	if err != nil {
		panic(err)
	}
	return out
}

// Doc is the sign-doc of a voted proposal.
func Doc(method, chainID, proposer string, seq, epoch uint64, data []byte) []byte {
	return relayertypes.VoteSignDoc(method, chainID, proposer, seq, epoch, data)
}
