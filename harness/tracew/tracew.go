// Package tracew writes ndjson traces and reads TLC-generated case tables.
package tracew

import (
	"bufio"
	"encoding/json"
	"os"
)

type Writer struct {
	f *os.File
	w *bufio.Writer
	N int
}

func Create(path string) (*Writer, error) {
	f, err := os.Create(path)
	if err != nil {
		return nil, err
	}
	return &Writer{f: f, w: bufio.NewWriterSize(f, 1<<20)}, nil
}

func (w *Writer) Emit(v interface{}) {
	bz, err := json.Marshal(v)
	if err != nil {
		panic(err)
	}
	w.w.Write(bz)
	w.w.WriteByte('\n')
	w.w.Flush() // every event reaches the file at once: a trace cut short (crash, timeout) is still a trace
	w.N++
}

func (w *Writer) Flush() { w.w.Flush() }

func (w *Writer) Close() error {
	w.w.Flush()
	return w.f.Close()
}

// ReadNDJSON calls fn for every line of an ndjson file.
func ReadNDJSON(path string, fn func(line []byte) error) error {
	f, err := os.Open(path)
	if err != nil {
		return err
	}
	defer f.Close()
	sc := bufio.NewScanner(f)
	sc.Buffer(make([]byte, 1<<20), 1<<26)
	for sc.Scan() {
		if len(sc.Bytes()) == 0 {
			continue
		}
		if err := fn(sc.Bytes()); err != nil {
			return err
		}
	}
	return sc.Err()
}
