module goatverif

go 1.23.2

require (
	cosmossdk.io/collections v0.4.0
	cosmossdk.io/log v1.4.1
	cosmossdk.io/math v1.4.0
	cosmossdk.io/store v1.1.1
	github.com/btcsuite/btcd v0.24.2
	github.com/btcsuite/btcd/btcec/v2 v2.3.4
	github.com/btcsuite/btcd/btcutil v1.1.6
	github.com/btcsuite/btcd/chaincfg/chainhash v1.1.0
	github.com/cometbft/cometbft v0.38.15
	github.com/cosmos/cosmos-db v1.0.2
	github.com/cosmos/cosmos-sdk v0.50.10
	github.com/cosmos/gogoproto v1.7.0
	github.com/ethereum/go-ethereum v1.14.11
	github.com/goatnetwork/goat v0.0.0
	github.com/supranational/blst v0.3.13
	google.golang.org/protobuf v1.35.1
)

require (
	cosmossdk.io/api v0.7.5 // indirect
	cosmossdk.io/client/v2 v2.0.0-beta.4 // indirect
	cosmossdk.io/core v0.11.1 // indirect
	cosmossdk.io/depinject v1.1.0 // indirect
	cosmossdk.io/errors v1.0.1 // indirect
	cosmossdk.io/x/tx v0.13.5 // indirect
	filippo.io/edwards25519 v1.0.0 // indirect
	github.com/99designs/keyring v1.2.1 // indirect
	github.com/DataDog/datadog-go v3.2.0+incompatible // indirect
	github.com/beorn7/perks v1.0.1 // indirect
	github.com/bgentry/speakeasy v0.1.1-0.20220910012023-760eaf8b6816 // indirect
	github.com/bits-and-blooms/bitset v1.13.0 // indirect
	github.com/btcsuite/btclog v0.0.0-20170628155309-84c8d2346e9f // indirect
	github.com/cenkalti/backoff/v4 v4.3.0 // indirect
	github.com/cespare/xxhash/v2 v2.3.0 // indirect
	github.com/cockroachdb/errors v1.11.3 // indirect
	github.com/cockroachdb/logtags v0.0.0-20230118201751-21c54148d20b // indirect
	github.com/cockroachdb/redact v1.1.5 // indirect
	github.com/cometbft/cometbft-db v0.15.0 // indirect
	github.com/consensys/bavard v0.1.13 // indirect
	github.com/consensys/gnark-crypto v0.12.1 // indirect
	github.com/cosmos/btcutil v1.0.5 // indirect
	github.com/cosmos/cosmos-proto v1.0.0-beta.5 // indirect
	github.com/cosmos/go-bip39 v1.0.0 // indirect
	github.com/cosmos/gogogateway v1.2.0 // indirect
	github.com/cosmos/iavl v1.2.0 // indirect
	github.com/cosmos/ics23/go v0.11.0 // indirect
	github.com/crate-crypto/go-ipa v0.0.0-20240223125850-b1e8a79f509c // indirect
	github.com/crate-crypto/go-kzg-4844 v1.0.0 // indirect
	github.com/davecgh/go-spew v1.1.2-0.20180830191138-d8f796af33cc // indirect
	github.com/deckarep/golang-set/v2 v2.6.0 // indirect
	github.com/decred/dcrd/crypto/blake256 v1.0.1 // indirect
	github.com/decred/dcrd/dcrec/secp256k1/v4 v4.3.0 // indirect
	github.com/desertbit/timer v0.0.0-20180107155436-c41aec40b27f // indirect
	github.com/dvsekhvalnov/jose2go v1.6.0 // indirect
	github.com/emicklei/dot v1.6.1 // indirect
	github.com/ethereum/go-verkle v0.1.1-0.20240829091221-dffa7562dbe9 // indirect
	github.com/fatih/color v1.16.0 // indirect
	github.com/felixge/httpsnoop v1.0.4 // indirect
	github.com/fsnotify/fsnotify v1.7.0 // indirect
	github.com/getsentry/sentry-go v0.27.0 // indirect
	github.com/go-kit/kit v0.13.0 // indirect
	github.com/go-kit/log v0.2.1 // indirect
	github.com/go-logfmt/logfmt v0.6.0 // indirect
	github.com/godbus/dbus v0.0.0-20190726142602-4481cbc300e2 // indirect
	github.com/gofrs/flock v0.8.1 // indirect
	github.com/gogo/googleapis v1.4.1 // indirect
	github.com/gogo/protobuf v1.3.2 // indirect
	github.com/golang/mock v1.6.0 // indirect
	github.com/golang/protobuf v1.5.4 // indirect
	github.com/golang/snappy v0.0.5-0.20220116011046-fa5810519dcb // indirect
	github.com/google/btree v1.1.3 // indirect
	github.com/google/go-cmp v0.6.0 // indirect
	github.com/google/orderedcode v0.0.1 // indirect
	github.com/gorilla/handlers v1.5.2 // indirect
	github.com/gorilla/mux v1.8.1 // indirect
	github.com/gorilla/websocket v1.5.3 // indirect
	github.com/grpc-ecosystem/go-grpc-middleware v1.4.0 // indirect
	github.com/grpc-ecosystem/grpc-gateway v1.16.0 // indirect
	github.com/gsterjov/go-libsecret v0.0.0-20161001094733-a6f4afe4910c // indirect
	github.com/hashicorp/go-hclog v1.5.0 // indirect
	github.com/hashicorp/go-immutable-radix v1.3.1 // indirect
	github.com/hashicorp/go-metrics v0.5.3 // indirect
	github.com/hashicorp/go-plugin v1.5.2 // indirect
	github.com/hashicorp/golang-lru v1.0.2 // indirect
	github.com/hashicorp/golang-lru/v2 v2.0.7 // indirect
	github.com/hashicorp/hcl v1.0.0 // indirect
	github.com/hashicorp/yamux v0.1.1 // indirect
	github.com/hdevalence/ed25519consensus v0.1.0 // indirect
	github.com/holiman/uint256 v1.3.1 // indirect
	github.com/huandu/skiplist v1.2.0 // indirect
	github.com/iancoleman/strcase v0.3.0 // indirect
	github.com/improbable-eng/grpc-web v0.15.0 // indirect
	github.com/kelindar/bitmap v1.5.2 // indirect
	github.com/kelindar/simd v1.1.2 // indirect
	github.com/klauspost/compress v1.17.9 // indirect
	github.com/klauspost/cpuid/v2 v2.2.4 // indirect
	github.com/kr/pretty v0.3.1 // indirect
	github.com/kr/text v0.2.0 // indirect
	github.com/lib/pq v1.10.9 // indirect
	github.com/magiconair/properties v1.8.7 // indirect
	github.com/mattn/go-colorable v0.1.13 // indirect
	github.com/mattn/go-isatty v0.0.20 // indirect
	github.com/mattn/go-runewidth v0.0.13 // indirect
	github.com/minio/highwayhash v1.0.3 // indirect
	github.com/mitchellh/go-testing-interface v1.14.1 // indirect
	github.com/mitchellh/mapstructure v1.5.0 // indirect
	github.com/mmcloughlin/addchain v0.4.0 // indirect
	github.com/mtibben/percent v0.2.1 // indirect
	github.com/munnerz/goautoneg v0.0.0-20191010083416-a7dc8b61c822 // indirect
	github.com/oasisprotocol/curve25519-voi v0.0.0-20230904125328-1f23a7beb09a // indirect
	github.com/oklog/run v1.1.0 // indirect
	github.com/olekukonko/tablewriter v0.0.5 // indirect
	github.com/pelletier/go-toml/v2 v2.2.2 // indirect
	github.com/pkg/errors v0.9.1 // indirect
	github.com/pmezard/go-difflib v1.0.1-0.20181226105442-5d4384ee4fb2 // indirect
	github.com/prometheus/client_golang v1.20.5 // indirect
	github.com/prometheus/client_model v0.6.1 // indirect
	github.com/prometheus/common v0.60.1 // indirect
	github.com/prometheus/procfs v0.15.1 // indirect
	github.com/rcrowley/go-metrics v0.0.0-20201227073835-cf1acfcdf475 // indirect
	github.com/rivo/uniseg v0.2.0 // indirect
	github.com/rogpeppe/go-internal v1.12.0 // indirect
	github.com/rs/cors v1.11.1 // indirect
	github.com/rs/zerolog v1.33.0 // indirect
	github.com/sagikazarmark/slog-shim v0.1.0 // indirect
	github.com/shirou/gopsutil v3.21.4-0.20210419000835-c7a38de76ee5+incompatible // indirect
	github.com/spf13/afero v1.11.0 // indirect
	github.com/spf13/cast v1.7.0 // indirect
	github.com/spf13/cobra v1.8.1 // indirect
	github.com/spf13/pflag v1.0.5 // indirect
	github.com/spf13/viper v1.19.0 // indirect
	github.com/stretchr/testify v1.10.0 // indirect
	github.com/subosito/gotenv v1.6.0 // indirect
	github.com/syndtr/goleveldb v1.0.1-0.20220721030215-126854af5e6d // indirect
	github.com/tendermint/go-amino v0.16.0 // indirect
	github.com/tidwall/btree v1.7.0 // indirect
	github.com/tklauser/go-sysconf v0.3.12 // indirect
	github.com/tklauser/numcpus v0.6.1 // indirect
	go.uber.org/automaxprocs v1.6.0 // indirect
	golang.org/x/crypto v0.29.0 // indirect
	golang.org/x/exp v0.0.0-20240506185415-9bf2ced13842 // indirect
	golang.org/x/net v0.30.0 // indirect
	golang.org/x/sync v0.9.0 // indirect
	golang.org/x/sys v0.27.0 // indirect
	golang.org/x/term v0.26.0 // indirect
	golang.org/x/text v0.20.0 // indirect
	google.golang.org/genproto v0.0.0-20240227224415-6ceb2ff114de // indirect
	google.golang.org/genproto/googleapis/api v0.0.0-20240814211410-ddb44dafa142 // indirect
	google.golang.org/genproto/googleapis/rpc v0.0.0-20240930140551-af27646dc61f // indirect
	google.golang.org/grpc v1.67.1 // indirect
	gopkg.in/ini.v1 v1.67.0 // indirect
	gopkg.in/yaml.v3 v3.0.1 // indirect
	gotest.tools/v3 v3.5.1 // indirect
	nhooyr.io/websocket v1.8.6 // indirect
	pgregory.net/rapid v1.1.0 // indirect
	rsc.io/tmplfunc v0.0.3 // indirect
	sigs.k8s.io/yaml v1.4.0 // indirect
)

replace (
	github.com/99designs/keyring => github.com/cosmos/keyring v1.2.0
	github.com/ethereum/go-ethereum => github.com/GOATNetwork/goat-geth v0.1.0
	github.com/gin-gonic/gin => github.com/gin-gonic/gin v1.9.1
	github.com/goatnetwork/goat => /repo
	github.com/syndtr/goleveldb => github.com/syndtr/goleveldb v1.0.1-0.20210819022825-2ae1ddf74ef7
)
