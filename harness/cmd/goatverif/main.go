// goatverif drives the real goat application (and its pure functions) and records ndjson traces
// that the TLA+ trace specifications under /verif/spec validate.
package main

import (
	"flag"
	"fmt"
	"os"

	"goatverif/drive"
)

func main() {
	if len(os.Args) < 2 {
		fmt.Fprintln(os.Stderr, "usage: goatverif <command> [flags]")
		os.Exit(2)
	}
	cmd, args := os.Args[1], os.Args[2:]
	fs := flag.NewFlagSet(cmd, flag.ExitOnError)
	seed := fs.Int64("seed", 1, "random seed")
	out := fs.String("out", "trace.ndjson", "output trace file")
	cases := fs.String("cases", "cases.ndjson", "TLC-generated case table / behaviours")
	inst := fs.Int("inst", 2, "instantiations per abstract case")
	n := fs.Int("n", 10, "number of histories")
	depth := fs.Int("depth", 40, "blocks per history")
	mode := fs.String("mode", "", "driver mode")
	network := fs.String("network", "regtest", "bitcoin network of the chain")
	pr := fs.Int64("pr", 1, "locking power reduction")
	maxVals := fs.Int64("max-vals", 2, "locking MaxValidators")
	period := fs.Int64("period", 3, "relayer electing period (ticks)")
	acceptTimeout := fs.Int64("accept-timeout", 2, "relayer accept-proposer timeout (ticks)")
	fs.Parse(args)
	_ = n
	_ = depth

	var err error
	var count int
	switch cmd {
	case "merkle":
		count, err = drive.MerkleReplay(*cases, *out, *seed, *inst)
	case "rewardbig":
		count, err = drive.RewardBig(*out, *seed, *n, *depth)
	case "robust":
		count, err = drive.RobustRandom(*out, *seed, *n, *depth)
	case "reimport":
		if *mode != "" {
			count, err = drive.ReimportOne(*out, *seed, *n, *depth, *mode)
		} else {
			count, err = drive.ReimportRandom(*out, *seed, *n, *depth)
		}
	case "ante":
		count, err = drive.AnteReplay(*cases, *out, *seed)
	case "handover":
		count, err = drive.HandoverRandom(*out, *seed, *n, *depth, drive.HandoverOpts{Mode: *mode})
	case "bridge":
		count, err = drive.BridgeRandom(*out, *seed, *n, *depth, *mode, *network)
	case "locking":
		count, err = drive.LockingRandom(*out, *seed, *n, *depth, drive.LockingOpts{PowerReduction: *pr, MaxVals: *maxVals, NVals: 5, Mode: *mode})
	case "relayer":
		count, err = drive.RelayerRandom(*out, *seed, *n, *depth, *period, *acceptTimeout)
	case "system":
		count, err = drive.SystemRandom(*out, *seed, *n, *depth, *mode)
	case "voted":
		count, err = drive.VotedReplay(*cases, *out, *seed, *inst)
	default:
		fmt.Fprintln(os.Stderr, "unknown command", cmd)
		os.Exit(2)
	}
	if err != nil {
		fmt.Fprintln(os.Stderr, "DRIVER-ERROR:", err)
		os.Exit(3)
	}
	fmt.Printf("EVENTS %d\n", count)
}
