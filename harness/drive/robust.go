package drive

import (
	"encoding/json"
	"fmt"
	"goatverif/btc"
	"google.golang.org/protobuf/encoding/protowire"
	"math/rand"
	"os"
	"strings"

	"cosmossdk.io/math"
	abci "github.com/cometbft/cometbft/abci/types"
	sdk "github.com/cosmos/cosmos-sdk/types"
	"github.com/ethereum/go-ethereum/common"
	"github.com/ethereum/go-ethereum/core/types/goattypes"
	bitcointypes "github.com/goatnetwork/goat/x/bitcoin/types"
	goatmodtypes "github.com/goatnetwork/goat/x/goat/types"
	relayertypes "github.com/goatnetwork/goat/x/relayer/types"
	"goatverif/project"
	"goatverif/sim"
	"goatverif/tracew"
)

// RobustRandom (C19) applies malformed transactions, proposals and execution-layer request lists at states sampled along
// real histories. Every input is written to a journal before it is applied, so that a process death is replayable.
func RobustRandom(outFile string, seed int64, n, depth int) (int, error) {
	w, err := tracew.Create(outFile)
	if err != nil {
		return 0, err
	}
	defer w.Close()
	jf, err := os.Create(outFile + ".journal")
	if err != nil {
		return 0, err
	}
	defer jf.Close()
	for run := 1; run <= n; run++ {
		if err := robustHistory(w, jf, seed*100003+int64(run), run, depth); err != nil {
			if _, halted := err.(*HaltError); halted {
				continue // logged as a `halt` event, which the trace specification never explains; the other histories still run
			}
			return w.N, fmt.Errorf("run %d: %w", run, err)
		}
	}
	return w.N, nil
}

type robust struct {
	w    *tracew.Writer
	jf   *os.File
	r    *rand.Rand
	run  int
	a, b *Session
	lg   *lockGen
	bg   *bridgeGen

	firstBlock []byte
}

func (d *robust) journal(what string, data interface{}) {
	bz, _ := json.Marshal(Ev{"run": d.run, "h": d.a.C.Height + 1, "what": what, "data": data})
	d.jf.Write(append(bz, '\n'))
	d.jf.Sync()
}

func robustHistory(w *tracew.Writer, jf *os.File, seed int64, run, depth int) error {
	a, btcKey, err := newHandoverSession(seed, run)
	if err != nil {
		return err
	}
	defer a.C.Close()
	b, _, err := newHandoverSession(seed, run)
	if err != nil {
		return err
	}
	defer b.C.Close()
	r := rand.New(rand.NewSource(seed ^ 0xc19))
	d := &robust{w: w, jf: jf, r: r, run: run, a: a, b: b}
	d.lg = &lockGen{s: a, r: r, nextID: 1, nv: 5, clean: true}
	d.bg = &bridgeGen{s: a, r: r, net: netByName["regtest"], netName: "regtest", chain: map[uint64]*btcBlock{}, keys: []*sim.BtcKey{btcKey},
		addrIDs: map[string]string{}, wdNext: 1, clean: true}
	for i := 0; i < 3; i++ {
		e := make([]byte, 20)
		r.Read(e)
		d.bg.evms = append(d.bg.evms, e)
	}
	w.Emit(Ev{"ev": "init", "run": run})
	for i := 0; i < depth; i++ {
		if err := d.height(); err != nil {
			return err
		}
	}
	return nil
}

// malformedMsgs returns structurally broken messages of every relayer/bridge type (signed later by the relayer proposer).
func (d *robust) malformedMsgs(bech string) []struct {
	Kind string
	Msg  sdk.Msg
} {
	r := d.r
	rb := func(n int) []byte { b := make([]byte, n); r.Read(b); return b }
	vote := func(bitmapLen, sigLen int) *relayertypes.Votes {
		return &relayertypes.Votes{Sequence: uint64(r.Intn(3)), Epoch: uint64(r.Intn(2)), Voters: rb(bitmapLen), Signature: rb(sigLen)}
	}
	anyKey := &relayertypes.PublicKey{Key: &relayertypes.PublicKey_Secp256K1{Secp256K1: append([]byte{2}, rb(32)...)}}
	type M = struct {
		Kind string
		Msg  sdk.Msg
	}
	out := []M{
		{"hashes/nilVote", &bitcointypes.MsgNewBlockHashes{Proposer: bech, StartBlockNumber: 1, BlockHash: [][]byte{rb(32)}}},
		{"hashes/oddBitmap", &bitcointypes.MsgNewBlockHashes{Proposer: bech, StartBlockNumber: 1, BlockHash: [][]byte{rb(32)}, Vote: vote(1+r.Intn(40), 48)}},
		{"hashes/bigBitmap", &bitcointypes.MsgNewBlockHashes{Proposer: bech, StartBlockNumber: 1, BlockHash: [][]byte{rb(32)}, Vote: vote(33+r.Intn(64), 48)}},
		{"hashes/sigLen", &bitcointypes.MsgNewBlockHashes{Proposer: bech, StartBlockNumber: 1, BlockHash: [][]byte{rb(32)}, Vote: vote(8, r.Intn(100))}},
		{"hashes/hashLen", &bitcointypes.MsgNewBlockHashes{Proposer: bech, StartBlockNumber: 1, BlockHash: [][]byte{rb(r.Intn(40))}, Vote: vote(8, 48)}},
		{"hashes/tooMany", &bitcointypes.MsgNewBlockHashes{Proposer: bech, StartBlockNumber: 1, BlockHash: make([][]byte, 17), Vote: vote(8, 48)}},
		{"hashes/start0", &bitcointypes.MsgNewBlockHashes{Proposer: bech, StartBlockNumber: 0, Vote: vote(8, 48)}},
		{"pubkey/nilKey", &bitcointypes.MsgNewPubkey{Proposer: bech, Vote: vote(8, 48)}},
		{"pubkey/emptyOneof", &bitcointypes.MsgNewPubkey{Proposer: bech, Vote: vote(8, 48), Pubkey: &relayertypes.PublicKey{}}},
		{"pubkey/keyLen", &bitcointypes.MsgNewPubkey{Proposer: bech, Vote: vote(8, 48), Pubkey: &relayertypes.PublicKey{Key: &relayertypes.PublicKey_Schnorr{Schnorr: rb(r.Intn(40))}}}},
		{"pubkey/nilVote", &bitcointypes.MsgNewPubkey{Proposer: bech, Pubkey: anyKey}},
		{"deposits/empty", &bitcointypes.MsgNewDeposits{Proposer: bech}},
		{"deposits/emptyItem", &bitcointypes.MsgNewDeposits{Proposer: bech, Deposits: []*bitcointypes.Deposit{{}}, BlockHeaders: []*bitcointypes.BlockHeader{{Height: 1, Raw: rb(80)}}}},
		{"deposits/emptyHeader", &bitcointypes.MsgNewDeposits{Proposer: bech, Deposits: []*bitcointypes.Deposit{{}}, BlockHeaders: []*bitcointypes.BlockHeader{{}}}},
		{"deposits/headerLen", &bitcointypes.MsgNewDeposits{Proposer: bech, Deposits: []*bitcointypes.Deposit{{}}, BlockHeaders: []*bitcointypes.BlockHeader{{Height: 1, Raw: rb(r.Intn(100))}}}},
		{"deposits/nilKey", &bitcointypes.MsgNewDeposits{Proposer: bech, Deposits: []*bitcointypes.Deposit{{EvmAddress: rb(20), NoWitnessTx: rb(100)}}, BlockHeaders: []*bitcointypes.BlockHeader{{Height: 0, Raw: rb(80)}}}},
		{"deposits/garbageTx", &bitcointypes.MsgNewDeposits{Proposer: bech, Deposits: []*bitcointypes.Deposit{{EvmAddress: rb(20), NoWitnessTx: rb(94 + r.Intn(200)), RelayerPubkey: anyKey, IntermediateProof: rb(r.Intn(100))}}, BlockHeaders: []*bitcointypes.BlockHeader{{Height: 0, Raw: rb(80)}}}},
		{"deposits/tooMany", &bitcointypes.MsgNewDeposits{Proposer: bech, Deposits: emptyDeposits(17), BlockHeaders: []*bitcointypes.BlockHeader{{Height: 0, Raw: rb(80)}}}},
		{"process/nilVote", &bitcointypes.MsgProcessWithdrawal{Proposer: bech, Id: []uint64{1}, NoWitnessTx: rb(80), TxFee: 1}},
		{"process/noIds", &bitcointypes.MsgProcessWithdrawal{Proposer: bech, Vote: vote(8, 48), NoWitnessTx: rb(120), TxFee: 1}},
		{"process/manyIds", &bitcointypes.MsgProcessWithdrawal{Proposer: bech, Vote: vote(8, 48), Id: make([]uint64, 33), NoWitnessTx: rb(120), TxFee: 1}},
		{"process/garbageTx", &bitcointypes.MsgProcessWithdrawal{Proposer: bech, Vote: vote(8, 48), Id: []uint64{1}, NoWitnessTx: rb(61 + r.Intn(300)), TxFee: 1}},
		{"process/fee0", &bitcointypes.MsgProcessWithdrawal{Proposer: bech, Vote: vote(8, 48), Id: []uint64{1}, NoWitnessTx: rb(120)}},
		{"replace/fee0", &bitcointypes.MsgReplaceWithdrawal{Proposer: bech, Vote: vote(8, 48), NewNoWitnessTx: rb(120), Pid: uint64(r.Intn(3))}},
		{"replace/nilVote", &bitcointypes.MsgReplaceWithdrawal{Proposer: bech, NewNoWitnessTx: rb(80), NewTxFee: 1}},
		{"replace/garbageTx", &bitcointypes.MsgReplaceWithdrawal{Proposer: bech, Vote: vote(8, 48), NewNoWitnessTx: rb(61 + r.Intn(300)), NewTxFee: uint64(r.Intn(5)), Pid: uint64(r.Intn(3))}},
		{"finalize/sizes", &bitcointypes.MsgFinalizeWithdrawal{Proposer: bech, Txid: rb(r.Intn(40)), BlockHeader: rb(r.Intn(100)), IntermediateProof: rb(r.Intn(70)), TxIndex: uint32(r.Intn(3))}},
		{"finalize/raggedProof", &bitcointypes.MsgFinalizeWithdrawal{Proposer: bech, Txid: rb(32), BlockHeader: rb(80), IntermediateProof: rb(33), TxIndex: 1, Pid: uint64(r.Intn(3))}},
		{"approve/empty", &bitcointypes.MsgApproveCancellation{Proposer: bech}},
		{"approve/many", &bitcointypes.MsgApproveCancellation{Proposer: bech, Id: make([]uint64, 33)}},
		{"consolidation/nilVote", &bitcointypes.MsgNewConsolidation{Proposer: bech, NoWitnessTx: rb(80)}},
		{"consolidation/garbageTx", &bitcointypes.MsgNewConsolidation{Proposer: bech, NoWitnessTx: rb(61 + r.Intn(200)), Vote: vote(8, 48)}},
		{"newvoter/sizes", &relayertypes.MsgNewVoterRequest{Proposer: bech, VoterBlsKey: rb(r.Intn(100)), VoterTxKey: rb(r.Intn(40)), VoterTxKeyProof: rb(r.Intn(70)), VoterBlsKeyProof: rb(r.Intn(60))}},
		{"newvoter/garbageKeys", &relayertypes.MsgNewVoterRequest{Proposer: bech, VoterBlsKey: rb(96), VoterTxKey: rb(33), VoterTxKeyProof: rb(64), VoterBlsKeyProof: rb(48)}},
		{"accept/epoch", &relayertypes.MsgAcceptProposerRequest{Proposer: bech, Epoch: ^uint64(0)}},
	}
	return out
}

// malformedPayloads returns broken execution-block messages (signed later by the height's proposer).
func (d *robust) malformedPayloads(c *sim.Chain, bech string) (out []struct {
	Kind string
	Msg  sdk.Msg
}) {
	r := d.r
	rb := func(n int) []byte { b := make([]byte, n); r.Read(b); return b }
	type M = struct {
		Kind string
		Msg  sdk.Msg
	}
	honest := func() *goatmodtypes.ExecutionPayload {
		pl, err := c.HonestPayload(0, 1)
		if err != nil {
			panic(err)
		}
		return pl
	}
	// Every mutated payload gets its block hash recomputed: a payload the ENGINE calls INVALID stops the block by design (C09);
	// what is explored here is what the application itself does with malformed content.
	rehash := func(p *goatmodtypes.ExecutionPayload) {
		defer func() { recover() }()
		cp := *p
		if cp.BaseFeePerGas.IsNil() {
			cp.BaseFeePerGas = math.ZeroInt()
		}
		hh := sim.PayloadHash(goatmodtypes.PayloadToExecutableData(&cp), common.BytesToHash(p.BeaconRoot), p.Requests)
		p.BlockHash = hh[:]
	}
	defer func() {
		for _, m := range out {
			if eb, ok := m.Msg.(*goatmodtypes.MsgNewEthBlock); ok && eb.Payload != nil && m.Kind != "block/fieldSizes" {
				rehash(eb.Payload)
			}
		}
	}()
	out = []M{{"block/nilPayload", &goatmodtypes.MsgNewEthBlock{Proposer: bech}}}
	p := honest()
	p.ExtraData = nil
	out = append(out, M{"block/noExtra", &goatmodtypes.MsgNewEthBlock{Proposer: bech, Payload: p}})
	p = honest()
	p.ExtraData[0] = 200
	out = append(out, M{"block/countByte", &goatmodtypes.MsgNewEthBlock{Proposer: bech, Payload: p}})
	p = honest()
	p.Transactions = [][]byte{rb(10), nil, rb(300)}
	p.ExtraData[0] = 2
	out = append(out, M{"block/garbageSysTxs", &goatmodtypes.MsgNewEthBlock{Proposer: bech, Payload: p}})
	p = honest()
	p.Requests = [][]byte{{}, {0}, rb(5)}
	out = append(out, M{"block/emptyRequest", &goatmodtypes.MsgNewEthBlock{Proposer: bech, Payload: p}})
	for k := 0; k < 3; k++ {
		p = honest()
		var reqs [][]byte
		for j := 1 + r.Intn(4); j > 0; j-- { // arbitrary request lists: known type bytes with random bodies of plausible and implausible sizes
			typ := []byte{0, 1, 2, 3, 4, 5, 6, 7, 11, 12, 13, 14, 15, 16, 20, 21, 9, 99}[r.Intn(18)]
			body := rb([]int{0, 1, 16, 28, 40, 48, 52, 72, 84, 100, 7, 33, 500}[r.Intn(13)])
			reqs = append(reqs, append([]byte{typ}, body...))
		}
		if r.Intn(2) == 0 { // keep the mandatory gas request so that the list gets past the first check
			reqs = append(EmptyLockingRequests(c.Height+1).Encode(), reqs...)
		}
		p.Requests = reqs
		out = append(out, M{"block/randomRequests", &goatmodtypes.MsgNewEthBlock{Proposer: bech, Payload: p}})
	}
	p = honest()
	p.BaseFeePerGas = math.Int{}
	out = append(out, M{"block/nilBaseFee", &goatmodtypes.MsgNewEthBlock{Proposer: bech, Payload: p}})
	p = honest()
	p.FeeRecipient, p.ParentHash, p.BlockHash, p.BeaconRoot, p.LogsBloom = rb(3), rb(5), rb(70), nil, rb(9)
	out = append(out, M{"block/fieldSizes", &goatmodtypes.MsgNewEthBlock{Proposer: bech, Payload: p}})
	return out
}

func emptyDeposits(n int) []*bitcointypes.Deposit {
	out := make([]*bitcointypes.Deposit, n)
	for i := range out {
		out[i] = &bitcointypes.Deposit{}
	}
	return out
}

// safeTx signs a transaction, turning an encoder panic (a message that cannot exist on the wire) into an error.
func safeTx(f func() ([]byte, error)) (bz []byte, err error) {
	defer func() {
		if p := recover(); p != nil {
			err = fmt.Errorf("cannot be encoded: %v", p)
		}
	}()
	return f()
}

func mutateBytes(r *rand.Rand, bz []byte) ([]byte, string) {
	out := append([]byte{}, bz...)
	switch r.Intn(4) {
	case 0:
		return out[:r.Intn(len(out))], "truncate"
	case 1:
		ext := make([]byte, 1+r.Intn(50))
		r.Read(ext)
		return append(out, ext...), "extend"
	case 2:
		for k := 1 + r.Intn(4); k > 0; k-- {
			out[r.Intn(len(out))] ^= byte(1 << uint(r.Intn(8)))
		}
		return out, "bitflip"
	}
	g := make([]byte, r.Intn(400))
	r.Read(g)
	return g, "garbage"
}

func (d *robust) height() error {
	a, b, r := d.a, d.b, d.r
	c := a.C
	h := c.Height + 1
	lp := d.lg.plan()
	bp, err := d.bg.plan("")
	if err != nil {
		return err
	}
	a.Tick += lp.DT
	b.Tick = a.Tick
	var reqs [][]byte
	reqs = append(reqs, lp.Locking.Encode()...)
	reqs = append(reqs, bp.Bridge.Encode()...)
	if r.Intn(3) == 0 { // membership requests of every shape: unknown, duplicated, the proposer, everybody
		rr := &goattypes.RelayerRequests{}
		for k := r.Intn(3); k > 0; k-- {
			m := a.member(1 + r.Intn(8))
			rr.Adds = append(rr.Adds, &goattypes.AddVoterRequest{Voter: m.EthAddr(), Pubkey: common.BytesToHash(m.BlsPKH)})
		}
		for k := r.Intn(4); k > 0; k-- {
			rr.Removes = append(rr.Removes, &goattypes.RemoveVoterRequest{Voter: a.member(1 + r.Intn(8)).EthAddr()})
		}
		reqs = append(reqs, rr.Encode()...)
	}
	votes := c.DefaultVotes(h, lp.Absent)
	vc, err := a.voteCtx()
	if err != nil {
		return err
	}
	propBech := a.member(vc.Proposer).Bech
	valBech := sdk.MustBech32ifyAddressBytes("goat", c.KR.Vals[0].Addr)
	inject := h > c.InitialHeight && r.Intn(2) == 0

	// ---- malformed transactions for this height
	type bad struct {
		kind string
		tx   []byte
	}
	var bads []bad
	replaceFirst := "" // a malformed execution-block message takes the place of the honest one
	var firstTx []byte
	if inject {
		off := len(bp.Txs)
		msgs := d.malformedMsgs(propBech)
		r.Shuffle(len(msgs), func(i, j int) { msgs[i], msgs[j] = msgs[j], msgs[i] })
		for _, m := range msgs[:4+r.Intn(5)] {
			msg := m.Msg
			bz, err := safeTx(func() ([]byte, error) { return a.relTx(vc, msg, off) })
			if err != nil {
				d.w.Emit(Ev{"ev": "unbuildable", "run": d.run, "kind": m.Kind, "err": short(err.Error())})
				continue
			}
			off++
			bads = append(bads, bad{m.Kind, bz})
		}
		// transactions with two messages: a VALID voted message followed by one that fails (the same vote again: its sequence
		// is used up). Everything the first message did - sequence, accumulator, implicit acceptance - must be undone. Two
		// variants, for the current sequence and the next one (whichever fits after this block's other transactions).
		for dv := uint64(0); dv < 2; dv++ {
			vc2 := *vc
			vc2.Seq += dv
			raw, _ := btc.Tx(r, []btc.Out{{Value: int64(30000 + r.Intn(100000)), Script: btc.SystemScript(d.bg.curKey().Pub)}}, r.Intn(20))
			m1 := &bitcointypes.MsgNewConsolidation{Proposer: propBech, NoWitnessTx: raw}
			m1.Vote, _ = a.fullVote(&vc2, "NewConsolidation", m1.VoteSigDoc(), false)
			m2 := &bitcointypes.MsgNewConsolidation{Proposer: propBech, NoWitnessTx: raw, Vote: m1.Vote}
			prop := a.member(vc.Proposer)
			_, accSeq, _ := c.Account(prop.Addr)
			sq := accSeq + uint64(off)
			if bz, err := c.SignTx(prop.Priv, []sdk.Msg{m1, m2}, sim.SignOpts{Seq: &sq}); err == nil {
				off++
				bads = append(bads, bad{fmt.Sprintf("multi/validVoteThenReplay+%d", dv), bz})
			}
		}
		// byte-level mutants of well-formed transactions
		for _, t := range bp.Txs {
			if r.Intn(3) == 0 {
				mb, how := mutateBytes(r, t.Bytes)
				bads = append(bads, bad{"bytes/" + how, mb})
			}
		}
		pls := d.malformedPayloads(c, valBech)
		pm := pls[r.Intn(len(pls))]
		o := sim.SignOpts{TimeoutHeight: uint64(h)}
		if r.Intn(3) == 0 { // as the first transaction, instead of the honest block message
			if bz, err := safeTx(func() ([]byte, error) { return c.SignTx(c.KR.Vals[0].Priv, []sdk.Msg{pm.Msg}, o) }); err == nil {
				replaceFirst, firstTx = pm.Kind, bz
			} else {
				d.w.Emit(Ev{"ev": "unbuildable", "run": d.run, "kind": pm.Kind, "err": short(err.Error())})
			}
		} else { // as a later transaction (sequence after the honest block message)
			_, seq, _ := c.Account(c.KR.Vals[0].Addr)
			sq := seq + 1
			o.Seq = &sq
			if bz, err := safeTx(func() ([]byte, error) { return c.SignTx(c.KR.Vals[0].Priv, []sdk.Msg{pm.Msg}, o) }); err == nil {
				bads = append(bads, bad{pm.Kind, bz})
			} else {
				d.w.Emit(Ev{"ev": "unbuildable", "run": d.run, "kind": pm.Kind, "err": short(err.Error())})
			}
		}
	}

	mk := func(s *Session, withBad bool) (*sim.Block, error) {
		cc := s.C
		cc.Eng.NextRequests = reqs
		blk := &sim.Block{Height: h, Time: cc.TimeAt(s.Tick), Proposer: 0, Votes: votes, Misbehavior: lp.Misb}
		var tx0 []byte
		if h == cc.InitialHeight {
			if d.firstBlock == nil {
				pp, err := cc.Prepare(blk, nil)
				if err != nil {
					return nil, err
				}
				d.firstBlock = pp.Txs[0]
			}
			tx0 = d.firstBlock
		} else if withBad && firstTx != nil {
			tx0 = firstTx
		} else {
			pl, err := cc.HonestPayload(0, 1)
			if err != nil {
				return nil, err
			}
			if tx0, err = cc.BlockTx(0, h, pl, sim.SignOpts{}); err != nil {
				return nil, err
			}
		}
		blk.Txs = [][]byte{tx0}
		for _, t := range bp.Txs {
			blk.Txs = append(blk.Txs, t.Bytes)
		}
		if withBad {
			for _, x := range bads {
				blk.Txs = append(blk.Txs, x.tx)
			}
		}
		return blk, nil
	}

	// ---- the malformed inputs also go through CheckTx and ProcessProposal (never a crash, never an admission of garbage)
	if inject {
		for _, x := range bads {
			d.journal("checktx:"+x.kind, x.tx)
			res, err := c.App.CheckTx(&abci.RequestCheckTx{Tx: x.tx, Type: abci.CheckTxType_New})
			d.w.Emit(Ev{"ev": "input", "run": d.run, "where": "check", "kind": x.kind, "errored": err != nil, "code": codeOf(res)})
		}
		blkP, err := mk(b, true)
		if err != nil {
			return err
		}
		d.journal("process", blkP.Txs)
		pr, perr := b.C.Process(blkP)
		b.C.Eng.TakeLog()
		acc := perr == nil && pr.Status == abci.ResponseProcessProposal_ACCEPT
		d.w.Emit(Ev{"ev": "input", "run": d.run, "where": "process", "kind": "proposal/" + replaceFirst, "errored": perr != nil, "code": boolCode(acc)})
		// wire-level mutants of the honest execution-block transaction: genuinely signed, but with protobuf fields of the message
		// or of its payload omitted, emptied, repeated or renumbered (no Go encoder produces these bytes; a peer can)
		if h > c.InitialHeight {
			if pl, err := b.C.HonestPayload(0, 1); err == nil {
				if honestTx, err := b.C.BlockTx(0, h, pl, sim.SignOpts{}); err == nil {
					for k := 0; k < 4; k++ {
						var path []protowire.Number
						if r.Intn(5) > 0 {
							path = []protowire.Number{2} // inside the payload
						}
						how := ""
						mt, err := b.C.ResignWithValue(honestTx, b.C.KR.Vals[0].Priv, func(v []byte) []byte {
							out, hw, ok := wireMutate(r, v, path)
							if !ok {
								return v
							}
							how = hw
							return out
						})
						if err != nil || how == "" {
							continue
						}
						txs := [][]byte{mt}
						for _, t := range bp.Txs {
							txs = append(txs, t.Bytes)
						}
						blkW := &sim.Block{Height: h, Time: b.C.TimeAt(b.Tick), Proposer: 0, Votes: votes, Misbehavior: lp.Misb, Txs: txs}
						b.C.Eng.NextRequests = reqs
						d.journal("process-wire:"+how, txs)
						pr, perr := b.C.Process(blkW)
						b.C.Eng.TakeLog()
						d.w.Emit(Ev{"ev": "input", "run": d.run, "where": "process", "kind": "proposal/wire", "how": how, "errored": perr != nil,
							"code": boolCode(perr == nil && pr.Status == abci.ResponseProcessProposal_ACCEPT)})
						d.journal("checktx-wire:"+how, mt)
						res, cerr := c.App.CheckTx(&abci.RequestCheckTx{Tx: mt, Type: abci.CheckTxType_New})
						d.w.Emit(Ev{"ev": "input", "run": d.run, "where": "check", "kind": "wire", "how": how, "errored": cerr != nil, "code": codeOf(res)})
						// (not finalised: a payload whose bytes changed no longer matches its block hash, and an engine that answers
						// INVALID at the end of a block stops the chain by design, C09)
					}
				}
			}
		}
		// proposals whose list of system transactions is cut short at some position (count byte adjusted or not), re-hashed and
		// genuinely signed: with transactions of both modules due, the list may hold all of the bridge's and too few of the rest
		if h > c.InitialHeight {
			if pl, err := b.C.HonestPayload(0, 1); err == nil && len(pl.ExtraData) > 0 && int(pl.ExtraData[0]) > 0 {
				n := int(pl.ExtraData[0])
				for k := 0; k < 3; k++ {
					cut := r.Intn(n)
					cp := *pl
					cp.Transactions = append([][]byte{}, pl.Transactions[:cut]...)
					cp.ExtraData = append([]byte{}, pl.ExtraData...)
					if r.Intn(2) == 0 {
						cp.ExtraData[0] = byte(cut)
					}
					hh := sim.PayloadHash(goatmodtypes.PayloadToExecutableData(&cp), common.BytesToHash(cp.BeaconRoot), cp.Requests)
					cp.BlockHash = hh[:]
					tx0, err := b.C.BlockTx(0, h, &cp, sim.SignOpts{})
					if err != nil {
						continue
					}
					txs := [][]byte{tx0}
					for _, t := range bp.Txs {
						txs = append(txs, t.Bytes)
					}
					blkC := &sim.Block{Height: h, Time: b.C.TimeAt(b.Tick), Proposer: 0, Votes: votes, Misbehavior: lp.Misb, Txs: txs}
					b.C.Eng.NextRequests = reqs
					d.journal(fmt.Sprintf("process-cut:%d/%d", cut, n), txs)
					pr, perr := b.C.Process(blkC)
					b.C.Eng.TakeLog()
					d.w.Emit(Ev{"ev": "input", "run": d.run, "where": "process", "kind": "proposal/cut", "how": fmt.Sprintf("%d/%d", cut, n), "errored": perr != nil,
						"code": boolCode(perr == nil && pr.Status == abci.ResponseProcessProposal_ACCEPT)})
				}
			}
		}
		// arbitrary proposals
		for k := 0; k < 2; k++ {
			var txs [][]byte
			for j := r.Intn(19); j > 0; j-- {
				g := make([]byte, r.Intn(300))
				r.Read(g)
				txs = append(txs, g)
			}
			blkG := &sim.Block{Height: h, Time: b.C.TimeAt(b.Tick), Proposer: 0, Votes: votes, Txs: txs}
			d.journal("process-garbage", txs)
			pr, perr := b.C.Process(blkG)
			b.C.Eng.TakeLog()
			d.w.Emit(Ev{"ev": "input", "run": d.run, "where": "process", "kind": "proposal/garbage", "errored": perr != nil,
				"code": boolCode(perr == nil && pr.Status == abci.ResponseProcessProposal_ACCEPT)})
		}
	}

	// ---- replica B first executes the block without the malformed inputs, is dropped, then both execute the full block
	// "changes nothing" is judged on the stores of the four application modules; the account store is left out because a
	// transaction whose message fails after passing admission still consumes its account sequence (cosmos-sdk replay protection)
	modDigest := func(cc *sim.Chain) string {
		out := ""
		for _, name := range []string{"relayer", "bitcoin", "locking", "goat"} {
			out += project.StoreDigest(cc, name) + "/"
		}
		return out
	}
	var appWithout string
	if inject && replaceFirst == "" {
		blkB, err := mk(b, false)
		if err != nil {
			return err
		}
		resB, err := b.C.Finalize(blkB)
		if err != nil { // FinalizeBlock failed on a block WITHOUT any malformed input: block processing halts
			d.w.Emit(Ev{"ev": "halt", "run": d.run, "h": h, "err": short(err.Error()), "first": "reference"})
			return &HaltError{Height: h, Err: err}
		}
		_ = resB
		appWithout = modDigest(b.C)
		b.C.Eng.TakeLog()
		if err := b.C.Restart(); err != nil {
			return err
		}
	}
	var resA *abci.ResponseFinalizeBlock
	for i, s := range []*Session{a, b} {
		blk, err := mk(s, true)
		if err != nil {
			return err
		}
		if i == 0 {
			d.journal("finalize", blk.Txs)
		}
		res, err := s.C.Finalize(blk)
		if err != nil {
			d.w.Emit(Ev{"ev": "halt", "run": d.run, "h": h, "err": short(err.Error()), "first": replaceFirst})
			return &HaltError{Height: h, Err: err}
		}
		s.C.ApplyUpdates(h, res.ValidatorUpdates)
		if err := s.C.Commit(); err != nil {
			return err
		}
		s.C.Eng.TakeLog()
		if i == 0 {
			resA = res
		}
	}
	if inject {
		anyApplied := false
		base := 1 + len(bp.Txs)
		for i, x := range bads {
			rr := resA.TxResults[base+i]
			applied := rr.Code == 0
			anyApplied = anyApplied || applied
			d.w.Emit(Ev{"ev": "input", "run": d.run, "where": "finalize", "kind": x.kind, "errored": false, "code": int(rr.Code), "log": short(rr.Log)})
		}
		if replaceFirst != "" {
			d.w.Emit(Ev{"ev": "input", "run": d.run, "where": "finalize", "kind": replaceFirst + "/first", "errored": false, "code": int(resA.TxResults[0].Code), "log": short(resA.TxResults[0].Log)})
		} else {
			d.w.Emit(Ev{"ev": "block", "run": d.run, "h": h, "anyApplied": anyApplied, "same": appWithout == modDigest(a.C), "n": len(bads)})
		}
	}
	return nil
}

func codeOf(res *abci.ResponseCheckTx) int {
	if res == nil {
		return -1
	}
	return int(res.Code)
}

func boolCode(ok bool) int {
	if ok {
		return 0
	}
	return 1
}

var _ = strings.Contains
