package drive

import (
	"bytes"
	"encoding/json"
	"fmt"
	"math/rand"
	"os"
	"path/filepath"
	"sort"
	"strings"

	abci "github.com/cometbft/cometbft/abci/types"
	tmcrypto "github.com/cometbft/cometbft/proto/tendermint/crypto"
	cmtproto "github.com/cometbft/cometbft/proto/tendermint/types"
	dbm "github.com/cosmos/cosmos-db"
	"github.com/ethereum/go-ethereum/common"
	"github.com/ethereum/go-ethereum/core/types/goattypes"
	"goatverif/project"
	"goatverif/sim"
	"goatverif/tracew"
)

// ReimportRandom drives mixed histories of the whole application and, at sampled heights, exports the state, initialises
// a fresh chain from the export, compares, and CONTINUES THE HISTORY ON THE IMPORTED CHAIN under the module trace
// specifications (so that a wrongly rebuilt index or queue shows up as a later divergence).
// It writes four traces into outDir: locking.ndjson, bridge.ndjson, relayer.ndjson, export.ndjson.
func ReimportRandom(outDir string, seed int64, n, depth int) (int, error) {
	ws := map[string]*tracew.Writer{}
	for _, name := range []string{"locking", "bridge", "relayer", "export"} {
		w, err := tracew.Create(filepath.Join(outDir, name+".ndjson"))
		if err != nil {
			return 0, err
		}
		defer w.Close()
		ws[name] = w
	}
	total := 0
	for run := 1; run <= n; run++ {
		if err := reimportHistory(ws, seed*100003+int64(run), run, depth); err != nil {
			if _, halted := err.(*HaltError); !halted {
				return total, fmt.Errorf("run %d: %w", run, err)
			}
		}
	}
	for _, w := range ws {
		total += w.N
	}
	return total, nil
}

// ReimportOne runs the same histories and keeps the trace of ONE module (which: locking | bridge | relayer | export) as outFile:
// the per-property checks whose statement spans "the lifetime of the chain" (C03 credited at most once, C11 conservation)
// validate it with their own slice, so that state lost or invented by an export / import cycle is reported under the
// property it breaks.
func ReimportOne(outFile string, seed int64, n, depth int, which string) (int, error) {
	dir, err := os.MkdirTemp(filepath.Dir(outFile), "reimp")
	if err != nil {
		return 0, err
	}
	defer os.RemoveAll(dir)
	if _, err := ReimportRandom(dir, seed, n, depth); err != nil {
		return 0, err
	}
	bz, err := os.ReadFile(filepath.Join(dir, which+".ndjson"))
	if err != nil {
		return 0, err
	}
	return bytes.Count(bz, []byte{'\n'}), os.WriteFile(outFile, bz, 0o644)
}

func reimportHistory(ws map[string]*tracew.Writer, seed int64, run, depth int) error {
	r := rand.New(rand.NewSource(seed))
	// every other history has relayer elections (membership really changes: on-boarding, off-boarding, re-joining accounts)
	o := LockingOpts{PowerReduction: 1, MaxVals: 2, NVals: 5}
	if seed%2 == 0 {
		o.RelayerPeriod, o.RelayerTimeout = 4, 3
	}
	c, btcKey, err := NewLockingChainKey(seed%5, o, r)
	if err != nil {
		return err
	}
	defer func() { c.Close() }()
	s := NewSession(c, seed, run)
	s.LockW, s.BridgeW = ws["locking"], ws["bridge"]
	lg := &lockGen{s: s, r: r, nextID: 1, nv: 5, clean: true}
	bg := &bridgeGen{s: s, r: r, net: netByName["regtest"], netName: "regtest", chain: map[uint64]*btcBlock{}, keys: []*sim.BtcKey{btcKey},
		addrIDs: map[string]string{}, wdNext: 1, clean: true}
	s.bridgeAddrID = bg.addrID
	for i := 0; i < 3; i++ {
		e := make([]byte, 20)
		r.Read(e)
		bg.evms = append(bg.evms, e)
	}
	if err := s.EmitLockInit(); err != nil {
		return err
	}
	if err := s.EmitBridgeInit(); err != nil {
		return err
	}
	emitX := func(f Ev) {
		f["ev"], f["run"] = "export", run
		ws["export"].Emit(f)
	}
	var removed []int
	for b := 0; b < depth; b++ {
		lg.forceExit = depth >= 20 && b == depth-8 // late in every history: a clean exit, exported three blocks later (see below)
		lp := lg.plan()
		bp, err := bg.plan("")
		if err != nil {
			return err
		}
		lp.Bridge, lp.BridgeAbs, lp.Txs = bp.Bridge, bp.BridgeAbs, bp.Txs
		// relayer membership traffic: pending voters, boarding queues
		if r.Intn(4) == 0 || (o.RelayerPeriod > 0 && r.Intn(2) == 0) {
			rr := &goattypes.RelayerRequests{}
			for k := 1 + r.Intn(2); k > 0; k-- {
				id := 1 + r.Intn(7)
				if len(removed) > 0 && r.Intn(2) == 0 {
					id = removed[r.Intn(len(removed))] // a former member (its account exists) asks to join again
				}
				m := s.member(id)
				rr.Adds = append(rr.Adds, &goattypes.AddVoterRequest{Voter: m.EthAddr(), Pubkey: common.BytesToHash(m.BlsPKH)})
			}
			if r.Intn(3) == 0 {
				id := 1 + r.Intn(7)
				if vc, err := s.voteCtx(); err == nil && len(vc.Voters) > 0 && r.Intn(2) == 0 {
					id = vc.Voters[r.Intn(len(vc.Voters))]
				}
				removed = append(removed, id)
				rr.Removes = append(rr.Removes, &goattypes.RemoveVoterRequest{Voter: s.member(id).EthAddr()})
			}
			if r.Intn(5) == 0 { // a batch that would empty the group: every voter (in some order) and the proposer somewhere among them
				if vc, err := s.voteCtx(); err == nil && len(vc.Voters) > 0 {
					ids := append([]int{vc.Proposer}, vc.Voters...)
					r.Shuffle(len(ids), func(i, j int) { ids[i], ids[j] = ids[j], ids[i] })
					for _, id := range ids {
						removed = append(removed, id)
						rr.Removes = append(rr.Removes, &goattypes.RemoveVoterRequest{Voter: s.member(id).EthAddr()})
					}
				}
			}
			lp.Relayer = rr
		}
		if r.Intn(3) == 0 && len(lp.Txs) < 10 {
			if vc, err := s.voteCtx(); err == nil {
				if st, err := project.Relayer(s.C); err == nil {
					for id := 1; id <= 7; id++ {
						if st.Rec[id-1].Status == "pending" && r.Intn(2) == 0 {
							if tx, err := s.NewVoterTx(vc, id, "none", len(lp.Txs), false); err == nil {
								tx.BEv, tx.BF = "other", Ev{}
								lp.Txs = append(lp.Txs, tx)
							}
							break
						}
					}
				}
			}
		}
		if _, err := s.RunBlock(lp); err != nil {
			if he, halted := err.(*HaltError); halted {
				emitX(Ev{"phase": "run", "h": he.Height, "ok": false, "what": "FinalizeBlock failed", "err": short(he.Err.Error()), "afterImport": s.afterImport})
			}
			return err
		}
		s.afterImport = false
		// exports are taken at random heights, more often from states with validators waiting for a slot (Pending, with power), jailed,
		// or outside the set with unclaimed rewards
		rich := false
		if lst, err := project.Locking(s.C); err == nil {
			for _, v := range lst.Val {
				if v.Exists && ((v.Status == "Pending" && v.Power > 0) || v.Status == "Downgrade" ||
					(v.Status != "Active" && (v.Reward > 0 || v.GasReward > 0))) { // ... or a validator outside the set still holds unclaimed rewards
					rich = true
				}
			}
		}
		if r.Intn(6) == 0 || b == depth-1 || (depth >= 20 && b == depth-5) || (rich && r.Intn(3) == 0) {
			nc, err := s.exportImport(ws, emitX)
			if err != nil {
				return err
			}
			if nc == nil {
				return nil // the export could not be imported: logged; this history ends here
			}
			old := s.C
			s.C = nc
			c = nc
			old.Close()
			s.afterImport = true
		}
	}
	return nil
}

// exportImport exports the application state, initialises a fresh application from it and compares.
func (s *Session) exportImport(ws map[string]*tracew.Writer, emitX func(Ev)) (nc *sim.Chain, err error) {
	a := s.C
	relBefore, err := project.Relayer(a)
	if err != nil {
		return nil, err
	}
	lockBefore, err := project.Locking(a)
	if err != nil {
		return nil, err
	}
	exp, err := a.App.ExportAppStateAndValidators(false, nil, nil)
	if err != nil {
		emitX(Ev{"phase": "export", "h": a.Height, "ok": false, "what": "export failed", "err": short(err.Error())})
		return nil, nil
	}
	var appState map[string]json.RawMessage
	if err := json.Unmarshal(exp.AppState, &appState); err != nil {
		return nil, err
	}
	var vals []abci.ValidatorUpdate
	for _, gv := range exp.Validators {
		vals = append(vals, abci.ValidatorUpdate{Power: gv.Power, PubKey: tmcrypto.PublicKey{Sum: &tmcrypto.PublicKey_Secp256K1{Secp256K1: gv.PubKey.Bytes()}}})
	}
	b, err := sim.NewChain(a.ChainID, a.KR, a.NodeVal, dbm.NewMemDB())
	if err != nil {
		return nil, err
	}
	cp := exp.ConsensusParams
	// the new chain starts when the old one was exported - or later: now and then the network stays down for a while (1 .. 8 ticks),
	// long enough for scheduled things (unlocks, jail times, the electing period) to fall due before the first block
	if s.R.Intn(3) == 0 {
		s.Tick += int64(1 + s.R.Intn(8))
	}
	restart := a.TimeAt(s.Tick)
	b.InitTime = &restart
	var initRes *abci.ResponseInitChain
	func() {
		defer func() {
			if p := recover(); p != nil {
				err = fmt.Errorf("InitChain panicked: %v", p)
			}
		}()
		initRes, err = b.InitChain(appState, vals, exp.Height, &cp)
	}()
	if err != nil {
		emitX(Ev{"phase": "import", "h": a.Height, "ok": false, "what": "the exported state cannot be imported", "err": short(err.Error())})
		b.Close()
		return nil, nil
	}
	// second export, taken from the state InitChain produced
	ctx := b.App.NewContextLegacy(false, cmtproto.Header{Height: exp.Height - 1, ChainID: b.ChainID})
	gen2, err := b.App.ModuleManager.ExportGenesisForModules(ctx, b.App.AppCodec(), nil)
	if err != nil {
		return nil, err
	}
	differing := []string{}
	for name, raw := range appState {
		if !jsonEqual(raw, gen2[name]) {
			differing = append(differing, name)
		}
	}
	sort.Strings(differing)
	// initial validator set = exported active set
	valsEqual := sameValidators(vals, initRes.Validators)
	// every query returns the same answers
	var wids []uint64
	if brB, err := project.Bridge(a, s.bridgeAddrID); err == nil {
		for _, wd := range brB.Wd {
			wids = append(wids, uint64(wd.ID))
		}
	}
	evms := []string{"0x00000000000000000000000000000000000000a1", "0x1234567890abcdef1234567890abcdef12345678"}
	qa, qb := project.QueryAnswers(a, wids, evms), project.QueryAnswers(b, wids, evms)
	qdiff := []string{}
	for name, va := range qa {
		if qb[name] != va || strings.HasPrefix(va, "WRONG:") { // (an answer that contradicts the state it was asked about counts as a difference)
			qdiff = append(qdiff, name)
		}
	}
	sort.Strings(qdiff)
	emitX(Ev{"phase": "import", "h": a.Height, "ok": true, "identical": len(differing) == 0, "differing": differing, "valsEqual": valsEqual,
		"queriesEqual": len(qdiff) == 0, "queriesDiffering": qdiff, "nqueries": len(qa), "what": "", "err": ""})
	// module-level comparison through the trace specifications
	relAfter, err := project.Relayer(b)
	if err != nil {
		return nil, err
	}
	rw := ws["relayer"]
	tmp := *s
	tmp.C = a
	rw.Emit(Ev{"ev": "init", "run": s.Run, "t": s.Tick, "h": a.Height, "st": tmp.relViewRaw(relBefore, a)})
	rw.Emit(Ev{"ev": "reimport", "run": s.Run, "st": tmp.relViewRaw(relAfter, b)})
	lockAfter, err := project.Locking(b)
	if err != nil {
		return nil, err
	}
	_ = lockBefore
	iv := [][2]int64{}
	for _, u := range initRes.Validators {
		id := 0
		for i, v := range b.KR.Vals {
			if bytes.Equal(v.Pub.Key, u.PubKey.GetSecp256K1()) {
				id = i + 1
			}
		}
		iv = append(iv, [2]int64{int64(id), u.Power})
	}
	tmpB := *s
	tmpB.C = b
	s.emit(s.LockW, "reimport", Ev{"st": lockAfter, "vals": iv, "comet": tmpB.cometView(b.Height + 1), "h": b.Height})
	brAfter, err := project.Bridge(b, s.bridgeAddrID)
	if err != nil {
		return nil, err
	}
	s.emit(s.BridgeW, "reimport", Ev{"st": brAfter})
	return b, nil
}

func jsonEqual(a, b json.RawMessage) bool {
	var x, y interface{}
	if json.Unmarshal(a, &x) != nil || json.Unmarshal(b, &y) != nil {
		return false
	}
	ja, _ := json.Marshal(x)
	jb, _ := json.Marshal(y)
	return bytes.Equal(ja, jb)
}

func sameValidators(a, b []abci.ValidatorUpdate) bool {
	key := func(l []abci.ValidatorUpdate) []string {
		var out []string
		for _, u := range l {
			out = append(out, fmt.Sprintf("%x:%d", u.PubKey.GetSecp256K1(), u.Power))
		}
		sort.Strings(out)
		return out
	}
	x, y := key(a), key(b)
	if len(x) != len(y) {
		return false
	}
	for i := range x {
		if x[i] != y[i] {
			return false
		}
	}
	return true
}
