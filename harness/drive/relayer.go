package drive

import (
	"bytes"
	"fmt"
	abci "github.com/cometbft/cometbft/abci/types"
	"math/rand"

	sdk "github.com/cosmos/cosmos-sdk/types"
	"github.com/ethereum/go-ethereum/common"
	"github.com/ethereum/go-ethereum/core/types/goattypes"
	ethcrypto "github.com/ethereum/go-ethereum/crypto"
	goatcrypto "github.com/goatnetwork/goat/pkg/crypto"
	relayertypes "github.com/goatnetwork/goat/x/relayer/types"
	"goatverif/project"
	"goatverif/sim"
	"goatverif/tracew"
)

// NewVoterTx builds MsgNewVoter for a pending voter with the requested flaw.
func (s *Session) NewVoterTx(vc *voteCtx, voterID int, flaw string, seqOffset int, addedNow bool) (*RelTx, error) {
	m := s.member(voterID)
	prop := s.member(vc.Proposer)
	ctx := s.C.ReadCtx()
	height := uint64(0)
	if v, err := s.C.App.RelayerKeeper.Voters.Get(ctx, m.Bech); err == nil {
		height = v.Height
	} else if addedNow { // registered by the execution-layer requests of this very block
		height = uint64(s.C.Height + 1)
	}
	epoch, chain, pf := vc.Epoch, s.C.ChainID, prop.Bech
	blsKey, blsSK, txPriv := m.BlsPK, m.BlsSK, m.Priv
	other := s.member(0)
	for i := 0; i < 8 && bytes.Equal(other.BlsPK, m.BlsPK); i++ { // a foreign key must really be another key (identities may share vote keys)
		other = s.member(i)
	}
	f := Ev{"pf": vc.Proposer, "voter": voterID, "sizesOk": true, "keyHashOk": true, "txProofOk": true, "blsProofOk": true, "flaw": flaw}
	switch flaw {
	case "keyHash":
		blsKey, blsSK = other.BlsPK, other.BlsSK
		f["keyHashOk"] = false
	case "txProof":
		txPriv = other.Priv
		f["txProofOk"] = false
	case "blsProof":
		blsSK = other.BlsSK
		f["blsProofOk"] = false
	case "epoch":
		epoch++
		f["txProofOk"], f["blsProofOk"] = false, false
	case "chain":
		chain = "another-chain"
		f["txProofOk"], f["blsProofOk"] = false, false
	case "height":
		height += 7
		f["txProofOk"], f["blsProofOk"] = false, false
	}
	req := relayertypes.NewOnBoardingVoterRequest(height, m.Addr, goatcrypto.SHA256Sum(blsKey))
	sigMsg := relayertypes.VoteSignDoc(req.MethodName(), chain, pf, 0, epoch, req.SignDoc())
	ecdsaKey, err := ethcrypto.ToECDSA(txPriv.Key)
	if err != nil {
		return nil, err
	}
	sig65, err := ethcrypto.Sign(sigMsg, ecdsaKey)
	if err != nil {
		return nil, err
	}
	msg := &relayertypes.MsgNewVoterRequest{
		Proposer: pf, VoterBlsKey: blsKey, VoterTxKey: m.Pub.Key,
		VoterTxKeyProof: sig65[:64], VoterBlsKeyProof: goatcrypto.Sign(blsSK, sigMsg),
	}
	if flaw == "sizes" {
		msg.VoterTxKeyProof = sig65
		f["sizesOk"] = false
	}
	_, accSeq, _ := s.C.Account(prop.Addr)
	sq := accSeq + uint64(seqOffset)
	bz, err := s.C.SignTx(prop.Priv, []sdk.Msg{msg}, sim.SignOpts{Seq: &sq})
	if err != nil {
		return nil, err
	}
	return &RelTx{Bytes: bz, Ev: "newvoter", F: f}, nil
}

// AcceptTx builds MsgAcceptProposer.
func (s *Session) AcceptTx(vc *voteCtx, epochDelta int64, seqOffset int) (*RelTx, error) {
	prop := s.member(vc.Proposer)
	ep := uint64(int64(vc.Epoch) + epochDelta)
	msg := &relayertypes.MsgAcceptProposerRequest{Proposer: prop.Bech, Epoch: ep}
	_, accSeq, _ := s.C.Account(prop.Addr)
	sq := accSeq + uint64(seqOffset)
	bz, err := s.C.SignTx(prop.Priv, []sdk.Msg{msg}, sim.SignOpts{Seq: &sq})
	if err != nil {
		return nil, err
	}
	return &RelTx{Bytes: bz, Ev: "accept", F: Ev{"pf": vc.Proposer, "epoch": int64(ep)}}, nil
}

// savedVote is a vote produced earlier that the adversary keeps for later re-submission.
type savedVote struct {
	Votes   *relayertypes.Votes
	Doc     Ev
	Signers []int
	Sig     []byte
	Vid     int
	Kind    string
}

// ReuseTx wraps a saved vote into a fresh message of the given kind (fresh payload) in the current context.
func (s *Session) ReuseTx(vc *voteCtx, sv *savedVote, kind string, fixFields bool, seqOffset int) (*RelTx, error) {
	prop := s.member(vc.Proposer)
	vm, err := s.newVotedMsg(vc, kind, prop.Bech)
	if err != nil {
		return nil, err
	}
	v := *sv.Votes
	if fixFields { // the adversary updates the unsigned envelope fields to the current sequence / epoch
		v.Sequence, v.Epoch = vc.Seq, vc.Epoch
	}
	vm.SetVote(&v)
	marks := []int{}
	for i := 0; i < 256; i++ {
		if len(v.Voters) > i/8 && bitAt(v.Voters, i) {
			marks = append(marks, i)
		}
	}
	f := Ev{"kind": kind, "payload": vm.Payload, "pf": vc.Proposer, "mseq": clip(v.Sequence), "mepoch": clip(v.Epoch),
		"marks": marks, "signers": sv.Signers, "doc": sv.Doc, "sigOk": true, "reuse": sv.Vid}
	for k, x := range vm.Extra {
		f[k] = x
	}
	fillVoteDefaults(f)
	_, accSeq, _ := s.C.Account(prop.Addr)
	sq := accSeq + uint64(seqOffset)
	bz, err := s.C.SignTx(prop.Priv, []sdk.Msg{vm.Msg}, sim.SignOpts{Seq: &sq})
	if err != nil {
		return nil, err
	}
	return &RelTx{Bytes: bz, Ev: "vote", F: f, Sig: sv.Sig, Vid: sv.Vid}, nil
}

func bitAt(buf []byte, i int) bool {
	w := i / 64
	if (w+1)*8 > len(buf) {
		return false
	}
	byteIdx := w*8 + (i%64)/8
	return buf[byteIdx]&(1<<uint(i%8)) != 0
}

func clip(v uint64) int64 {
	if v > 1<<31-1 {
		return -1
	}
	return int64(v)
}

// RelayerRandom drives n random histories of the relayer module: membership requests from the execution
// layer, registrations (valid / forged / replayed), acceptances, genuine votes, immediate and late
// re-submissions of old votes under the same and other contexts, and block times around the deadlines.
func RelayerRandom(outFile string, seed int64, n, depth int, period, timeout int64) (int, error) {
	w, err := tracew.Create(outFile)
	if err != nil {
		return 0, err
	}
	defer w.Close()
	for run := 1; run <= n; run++ {
		if err := relayerHistory(w, seed*100003+int64(run), run, depth, period, timeout); err != nil {
			if _, halted := err.(*HaltError); halted {
				continue // logged as a `halt` event, which no specification action explains
			}
			return w.N, fmt.Errorf("run %d: %w", run, err)
		}
	}
	return w.N, nil
}

func relayerHistory(w *tracew.Writer, seed int64, run, depth int, period, timeout int64) error {
	r0 := rand.New(rand.NewSource(seed))
	nv := r0.Intn(4)
	voters := make([]int, nv)
	for i := range voters {
		voters[i] = i + 1
	}
	// in half of the histories one or two late joiners hold the SAME BLS vote key as another identity (nothing forbids it at
	// registration): both are distinct voters, a vote marking both needs that key's signature twice
	var share [][2]int
	if r0.Intn(2) == 0 {
		for k := 1 + r0.Intn(2); k > 0; k-- {
			b := nv + 1 + r0.Intn(6-nv) // member indexes are 0-based here; index 7 is the outsider
			a := r0.Intn(nv + 1)        // a founding member (proposer or voter), so that both holders of the key sit in the group together
			if a != b {
				share = append(share, [2]int{a, b})
			}
		}
	}
	opts := ChainOpts{ChainID: "goat-rel", Seed: seed % 7, NVals: 1, NMembers: 8, Voters: voters, Proposer: 0, Period: period, AcceptTimeout: timeout, ShareBls: share}
	var c *sim.Chain
	var err error
	if rr := rand.New(rand.NewSource(seed ^ 0x5eed)); len(voters) >= 2 && rr.Intn(4) == 0 {
		// a MALFORMED relayer genesis is offered to the module's own import first: a voter listed twice (next to itself / with another
		// one in between) or the proposer listed among the voters. The import must refuse it (then the history starts from the
		// well-formed genesis); if it lets it through, the history starts from that group and the specification judges it
		kind := rr.Intn(3)
		bad := opts
		bad.Mutate = func(g *sim.Genesis) {
			vs := g.Relayer.Relayer.Voters
			switch kind {
			case 0:
				g.Relayer.Relayer.Voters = append(append([]string{}, vs...), vs[0]) // [A, B, ..., A]
			case 1:
				g.Relayer.Relayer.Voters = append([]string{vs[0]}, vs...) // [A, A, B, ...]
			default:
				g.Relayer.Relayer.Voters = append(append([]string{}, vs...), g.Relayer.Relayer.Proposer)
			}
		}
		func() {
			defer func() {
				if p := recover(); p != nil {
					c, err = nil, fmt.Errorf("genesis refused: %v", p)
				}
			}()
			c, _, err = NewStdChain(bad)
		}()
		if err != nil {
			c = nil
		}
	}
	if c == nil {
		c, _, err = NewStdChain(opts)
		if err != nil {
			return err
		}
	}
	defer c.Close()
	s := NewSession(c, seed, run)
	s.RelW = w
	if err := s.EmitInit(); err != nil {
		return err
	}
	var pool []*savedVote
	// withheld votes: complete, genuinely signed messages that were never submitted. An adversary keeps them and presents
	// one, unchanged, whenever sequence and proposer coincide again in a LATER epoch (single-use is also "never across epochs").
	type withheldVote struct {
		tx           *RelTx
		seq, epoch   uint64
		proposer     int
		tip          uint64
		presentedNow bool
	}
	var withheld []*withheldVote
	voteRate := []int{3, 3, 1, 0}[s.R.Intn(4)] // some histories are quiet: the sequence stands still across elections
	kinds := []string{"NewBlockHashes", "NewPubkey", "NewConsolidation"}
	for b := 0; b < depth; b++ {
		vc, err := s.voteCtx()
		if err != nil {
			return err
		}
		// admission probes (C10): a relayer transaction signed by some identity is offered to the mempool (CheckTx) at the
		// committed state; it is admitted iff its signer is the CURRENT relayer proposer - also while that proposer is queued for
		// removal, right after an election, and for members that are voters only
		if s.C.Height >= s.C.InitialHeight && s.RelW != nil {
			admittedBy := map[int]uint64{} // the check state remembers the sequence numbers it has admitted since the last commit
			for k := 0; k < 2; k++ {
				id := 1 + s.R.Intn(7)
				if k == 0 && s.R.Intn(2) == 0 {
					id = vc.Proposer
				} else if len(vc.Voters) > 0 && s.R.Intn(2) == 0 {
					id = vc.Voters[s.R.Intn(len(vc.Voters))]
				}
				m := s.member(id)
				_, accSeq, hasAcc := s.C.Account(m.Addr)
				if !hasAcc {
					continue
				}
				msg := &relayertypes.MsgAcceptProposerRequest{Proposer: m.Bech, Epoch: vc.Epoch}
				accSeq += admittedBy[id]
				bz, err := s.C.SignTx(m.Priv, []sdk.Msg{msg}, sim.SignOpts{Seq: &accSeq})
				if err != nil {
					return err
				}
				res, err := s.C.App.CheckTx(&abci.RequestCheckTx{Tx: bz, Type: abci.CheckTxType_New})
				if err != nil {
					return err
				}
				if res.Code == 0 {
					admittedBy[id]++
				}
				s.emit(s.RelW, "probe", Ev{"signer": id, "admitted": res.Code == 0, "log": short(res.Log)})
			}
		}
		{ // sign one vote per block and withhold it
			signers := []int{vc.Proposer}
			marks := []int{}
			for i, v := range vc.Voters {
				marks = append(marks, i)
				signers = append(signers, v)
			}
			if wtx, err := s.VotedTx(vc, kinds[1+s.R.Intn(2)], VoteSpec{Marks: marks, Signers: signers, Mut: "none"}, 0); err == nil {
				withheld = append(withheld, &withheldVote{tx: wtx, seq: vc.Seq, epoch: vc.Epoch, proposer: vc.Proposer, tip: vc.Tip})
			}
		}
		st, _ := project.Relayer(c)
		plan := &BlockPlan{DT: []int64{0, 1, 1, 1, 2, 3}[s.R.Intn(6)], Proposer: 0}
		// execution-layer membership requests
		if s.R.Intn(3) == 0 {
			rr := &goattypes.RelayerRequests{}
			for k := s.R.Intn(3); k > 0; k-- {
				id := 1 + s.R.Intn(7)
				if len(share) > 0 && s.R.Intn(2) == 0 {
					id = share[s.R.Intn(len(share))][1] + 1 // the late joiner holding a founding member's vote key
				}
				m := s.member(id)
				rr.Adds = append(rr.Adds, &goattypes.AddVoterRequest{Voter: m.EthAddr(), Pubkey: common.BytesToHash(m.BlsPKH)})
				plan.Adds = append(plan.Adds, id)
			}
			for k := s.R.Intn(3); k > 0; k-- {
				id := 1 + s.R.Intn(7)
				if s.R.Intn(2) == 0 && len(vc.Voters) > 0 {
					id = vc.Voters[s.R.Intn(len(vc.Voters))]
				} else if s.R.Intn(4) == 0 {
					id = vc.Proposer
				}
				rr.Removes = append(rr.Removes, &goattypes.RemoveVoterRequest{Voter: s.member(id).EthAddr()})
				plan.Removes = append(plan.Removes, id)
			}
			plan.Relayer = rr
		}
		// relayer transactions by the current proposer
		off := 0
		cur := *vc
		for _, wv := range withheld { // a withheld vote from an earlier epoch whose sequence and proposer fit again
			if wv.seq == vc.Seq && wv.proposer == vc.Proposer && wv.epoch != vc.Epoch && !wv.presentedNow && off < 2 && s.R.Intn(2) == 0 {
				prop := s.member(vc.Proposer)
				_, accSeq, _ := s.C.Account(prop.Addr)
				sq := accSeq + uint64(off)
				bz, err := s.C.SignTx(prop.Priv, []sdk.Msg{wv.tx.Msg}, sim.SignOpts{Seq: &sq})
				if err != nil {
					return err
				}
				f := Ev{}
				for k, x := range wv.tx.F {
					f[k] = x
				}
				f["withheldSince"] = clip(wv.epoch)
				plan.Txs = append(plan.Txs, &RelTx{Bytes: bz, Ev: "vote", F: f, Sig: wv.tx.Sig, Vid: wv.tx.Vid, Votes: wv.tx.Votes})
				off++
				wv.presentedNow = true
			}
		}
		for _, wv := range withheld {
			wv.presentedNow = false
		}
		ntx := s.R.Intn(5)
		for k := 0; k < ntx; k++ {
			var tx *RelTx
			switch x := s.R.Intn(10); {
			case x < voteRate: // genuine vote by a sufficient subset (or by everybody)
				marks := []int{}
				signers := []int{cur.Proposer}
				need := (2*(len(cur.Voters)+1)+2)/3 - 1
				perm := s.R.Perm(len(cur.Voters))
				take := need
				if s.R.Intn(2) == 0 {
					take = len(cur.Voters)
				}
				if s.R.Intn(6) == 0 && take > 0 {
					take-- // one signature short
				}
				for _, i := range perm[:take] {
					marks = append(marks, i)
					signers = append(signers, cur.Voters[i])
				}
				kind := kinds[s.R.Intn(3)]
				tx, err = s.VotedTx(&cur, kind, VoteSpec{Marks: marks, Signers: signers, Mut: "none", BitmapLen: []int{0, 32}[s.R.Intn(2)]}, off)
				if err != nil {
					return err
				}
				sv := &savedVote{Doc: tx.F["doc"].(Ev), Signers: tx.F["signers"].([]int), Sig: tx.Sig, Vid: tx.Vid, Kind: kind,
					Votes: tx.Votes}
				pool = append(pool, sv)
				if take >= need {
					cur.Seq++ // expected to be accepted: later transactions of this block are built for the next sequence
				}
				if s.R.Intn(3) == 0 { // immediate re-submission in a fresh transaction
					plan.Txs = append(plan.Txs, tx)
					off++
					tx, err = s.ReuseTx(&cur, sv, kind, s.R.Intn(2) == 0, off)
					if err != nil {
						return err
					}
				}
			case x < 5 && len(pool) > 0: // late re-submission, possibly under another kind
				sv := pool[s.R.Intn(len(pool))]
				kind := sv.Kind
				if s.R.Intn(3) == 0 {
					kind = kinds[s.R.Intn(3)]
				}
				tx, err = s.ReuseTx(&cur, sv, kind, s.R.Intn(2) == 0, off)
				if err != nil {
					return err
				}
			case x < 8: // registration of a voter (pending or not)
				id := 1 + s.R.Intn(7)
				for try := 0; try < 4 && st.Rec[id-1].Status != "pending"; try++ {
					id = 1 + s.R.Intn(7)
				}
				flaw := "none"
				if s.R.Intn(3) == 0 {
					flaw = []string{"keyHash", "txProof", "blsProof", "epoch", "chain", "height", "sizes"}[s.R.Intn(7)]
				}
				addedNow := false
				for _, a := range plan.Adds {
					addedNow = addedNow || a == id
				}
				tx, err = s.NewVoterTx(&cur, id, flaw, off, addedNow)
				if err != nil {
					return err
				}
			default:
				tx, err = s.AcceptTx(&cur, []int64{0, 0, 0, 1, -1}[s.R.Intn(5)], off)
				if err != nil {
					return err
				}
			}
			if tx == nil {
				continue
			}
			plan.Txs = append(plan.Txs, tx)
			off++
		}
		// sometimes the last two or three messages travel in ONE transaction (all-or-nothing: if a later message fails, what the
		// earlier ones did - sequence, accumulator, acceptance, registrations - is undone)
		if n := len(plan.Txs); n >= 2 && s.R.Intn(4) == 0 {
			k := 2
			if n >= 3 && s.R.Intn(2) == 0 {
				k = 3
			}
			single := true
			for _, t := range plan.Txs[n-k:] {
				single = single && len(t.Parts) == 0
			}
			if single {
				prop := s.member(vc.Proposer)
				_, accSeq, _ := s.C.Account(prop.Addr)
				m, err := s.MergeTxs(prop.Priv, plan.Txs[n-k:], accSeq+uint64(n-k))
				if err != nil {
					return err
				}
				plan.Txs = append(plan.Txs[:n-k:n-k], m)
			}
		}
		if _, err := s.RunBlock(plan); err != nil {
			return err
		}
	}
	return nil
}
