package drive

import (
	"fmt"
	"math/rand"

	"google.golang.org/protobuf/encoding/protowire"
)

// wireField is one top-level field of a protobuf message: its number, wire type, and the raw bytes of the whole field (tag
// included) and of its payload (for length-delimited fields).
type wireField struct {
	Num protowire.Number
	Typ protowire.Type
	Raw []byte
	Val []byte
}

func wireFields(b []byte) ([]wireField, bool) {
	var out []wireField
	for len(b) > 0 {
		num, typ, n := protowire.ConsumeTag(b)
		if n < 0 {
			return nil, false
		}
		m := protowire.ConsumeFieldValue(num, typ, b[n:])
		if m < 0 {
			return nil, false
		}
		f := wireField{Num: num, Typ: typ, Raw: b[:n+m]}
		if typ == protowire.BytesType {
			v, _ := protowire.ConsumeBytes(b[n:])
			f.Val = v
		}
		out = append(out, f)
		b = b[n+m:]
	}
	return out, true
}

func wireJoin(fs []wireField) []byte {
	var out []byte
	for _, f := range fs {
		out = append(out, f.Raw...)
	}
	return out
}

// wireMutate applies one structural mutation to the message bytes b: a field is dropped, emptied (length-delimited fields get
// length 0, varints become 0), repeated, or re-typed. If path is non-empty the mutation is applied inside the nested message
// found in the first occurrence of field path[0] (and so on). It returns the mutated bytes and a description.
func wireMutate(r *rand.Rand, b []byte, path []protowire.Number) ([]byte, string, bool) {
	fs, ok := wireFields(b)
	if !ok || len(fs) == 0 {
		return nil, "", false
	}
	if len(path) > 0 {
		for i, f := range fs {
			if f.Num == path[0] && f.Typ == protowire.BytesType {
				inner, how, ok := wireMutate(r, f.Val, path[1:])
				if !ok {
					return nil, "", false
				}
				nf := wireField{Num: f.Num, Typ: f.Typ, Val: inner}
				nf.Raw = protowire.AppendBytes(protowire.AppendTag(nil, f.Num, f.Typ), inner)
				out := append(append(append([]wireField{}, fs[:i]...), nf), fs[i+1:]...)
				return wireJoin(out), fmt.Sprintf("%d.%s", f.Num, how), true
			}
		}
		return nil, "", false
	}
	i := r.Intn(len(fs))
	f := fs[i]
	switch r.Intn(4) {
	case 0: // the field is absent
		out := append(append([]wireField{}, fs[:i]...), fs[i+1:]...)
		return wireJoin(out), fmt.Sprintf("drop%d", f.Num), true
	case 1: // present but empty / zero
		nf := f
		switch f.Typ {
		case protowire.BytesType:
			nf.Raw = protowire.AppendBytes(protowire.AppendTag(nil, f.Num, f.Typ), nil)
		case protowire.VarintType:
			nf.Raw = protowire.AppendVarint(protowire.AppendTag(nil, f.Num, f.Typ), 0)
		default:
			return nil, "", false
		}
		out := append(append(append([]wireField{}, fs[:i]...), nf), fs[i+1:]...)
		return wireJoin(out), fmt.Sprintf("empty%d", f.Num), true
	case 2: // the field occurs twice (last one wins for scalars, repeated fields grow)
		out := append(append(append([]wireField{}, fs[:i+1]...), f), fs[i+1:]...)
		return wireJoin(out), fmt.Sprintf("twice%d", f.Num), true
	default: // an unknown field number with the same content
		nf := f
		nf.Raw = append(protowire.AppendTag(nil, f.Num+100, f.Typ), f.Raw[protowire.SizeTag(f.Num):]...)
		out := append(append(append([]wireField{}, fs[:i]...), nf), fs[i+1:]...)
		return wireJoin(out), fmt.Sprintf("renumber%d", f.Num), true
	}
}
