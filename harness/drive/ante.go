package drive

import (
	"encoding/json"
	"fmt"
	"sort"
	"strings"

	abci "github.com/cometbft/cometbft/abci/types"
	cryptotypes "github.com/cosmos/cosmos-sdk/crypto/types"
	sdk "github.com/cosmos/cosmos-sdk/types"
	authtypes "github.com/cosmos/cosmos-sdk/x/auth/types"
	consensustypes "github.com/cosmos/cosmos-sdk/x/consensus/types"
	bitcointypes "github.com/goatnetwork/goat/x/bitcoin/types"
	goatmodtypes "github.com/goatnetwork/goat/x/goat/types"
	relayertypes "github.com/goatnetwork/goat/x/relayer/types"
	"goatverif/sim"
	"goatverif/tracew"
)

type anteCase struct {
	Mode    string   `json:"mode"`
	Msgs    []string `json:"msgs"`
	Signer  string   `json:"signer"`
	Second  bool     `json:"second"`
	Memo    bool     `json:"memo"`
	Timeout string   `json:"timeout"`
	SigOk   bool     `json:"sigOk"`
	SeqOk   bool     `json:"seqOk"`
	Admit   bool     `json:"admit"`
}

type anteDriver struct {
	memoN int // rotates the memo texts
	w     *tracew.Writer
	a, b  *Session
	types map[string][]string // class -> registered type urls
	rr    map[string]int
}

// classify puts every registered message type into a class of the specification.
func classify(url string) string {
	switch {
	case url == "/goat.goat.v1.MsgNewEthBlock":
		return "block"
	case strings.HasPrefix(url, "/goat.bitcoin."):
		return "bridge"
	case strings.HasPrefix(url, "/goat.relayer."):
		return "relayer"
	case url == "/cosmos.auth.v1beta1.MsgUpdateParams":
		return "authAdmin"
	case url == "/cosmos.consensus.v1.MsgUpdateParams":
		return "consAdmin"
	}
	return "other"
}

// newMsg instantiates a message of the class (cycling through the registered types of the class), signed-for by bech.
func (d *anteDriver) newMsg(class, bech string, proposerVal int) (sdk.Msg, error) {
	urls := d.types[class]
	if len(urls) == 0 {
		return nil, nil
	}
	url := urls[d.rr[class]%len(urls)]
	d.rr[class]++
	switch url {
	case "/goat.goat.v1.MsgNewEthBlock":
		pl, err := d.a.C.HonestPayload(proposerVal, 1)
		if err != nil {
			return nil, err
		}
		return &goatmodtypes.MsgNewEthBlock{Proposer: bech, Payload: pl}, nil
	case "/goat.bitcoin.v1.MsgNewBlockHashes":
		return &bitcointypes.MsgNewBlockHashes{Proposer: bech, StartBlockNumber: 999}, nil
	case "/goat.bitcoin.v1.MsgNewDeposits":
		return &bitcointypes.MsgNewDeposits{Proposer: bech}, nil
	case "/goat.bitcoin.v1.MsgNewPubkey":
		return &bitcointypes.MsgNewPubkey{Proposer: bech}, nil
	case "/goat.bitcoin.v1.MsgProcessWithdrawal":
		return &bitcointypes.MsgProcessWithdrawal{Proposer: bech}, nil
	case "/goat.bitcoin.v1.MsgReplaceWithdrawal":
		return &bitcointypes.MsgReplaceWithdrawal{Proposer: bech}, nil
	case "/goat.bitcoin.v1.MsgFinalizeWithdrawal":
		return &bitcointypes.MsgFinalizeWithdrawal{Proposer: bech}, nil
	case "/goat.bitcoin.v1.MsgApproveCancellation":
		return &bitcointypes.MsgApproveCancellation{Proposer: bech, Id: []uint64{99999}}, nil
	case "/goat.bitcoin.v1.MsgNewConsolidation":
		return &bitcointypes.MsgNewConsolidation{Proposer: bech, Vote: &relayertypes.Votes{}}, nil
	case "/goat.relayer.v1.MsgNewVoterRequest":
		return &relayertypes.MsgNewVoterRequest{Proposer: bech}, nil
	case "/goat.relayer.v1.MsgAcceptProposerRequest":
		return &relayertypes.MsgAcceptProposerRequest{Proposer: bech, Epoch: 99999}, nil
	case "/cosmos.auth.v1beta1.MsgUpdateParams":
		p := authtypes.DefaultParams()
		p.MaxMemoCharacters = 7
		return &authtypes.MsgUpdateParams{Authority: bech, Params: p}, nil
	case "/cosmos.consensus.v1.MsgUpdateParams":
		cp := sim.DefaultConsensusParams()
		cp.Block.MaxBytes = 12345
		return &consensustypes.MsgUpdateParams{Authority: bech, Block: cp.Block, Evidence: cp.Evidence, Validator: cp.Validator}, nil
	}
	return nil, fmt.Errorf("no constructor for registered message type %s", url)
}

// AnteReplay pushes every case of the TLC-enumerated admission table through the real application.
func AnteReplay(casesFile, outFile string, seed int64) (int, error) {
	var cases []anteCase
	if err := tracew.ReadNDJSON(casesFile, func(line []byte) error {
		var c anteCase
		if err := json.Unmarshal(line, &c); err != nil {
			return err
		}
		cases = append(cases, c)
		return nil
	}); err != nil {
		return 0, err
	}
	w, err := tracew.Create(outFile)
	if err != nil {
		return 0, err
	}
	defer w.Close()
	a, _, err := newHandoverSession(seed, 1)
	if err != nil {
		return 0, err
	}
	defer a.C.Close()
	b, _, err := newHandoverSession(seed, 1)
	if err != nil {
		return 0, err
	}
	defer b.C.Close()
	d := &anteDriver{w: w, a: a, b: b, types: map[string][]string{}, rr: map[string]int{}}
	urls := a.C.App.AppCodec().InterfaceRegistry().ListImplementations("cosmos.base.v1beta1.Msg")
	sort.Strings(urls)
	unclassified := 0
	for _, u := range urls {
		cl := classify(u)
		d.types[cl] = append(d.types[cl], u)
	}
	for _, u := range d.types["other"] {
		_ = u
		unclassified++ // a registered message type the harness cannot instantiate: must be looked at
	}
	w.Emit(Ev{"ev": "types", "registered": urls, "unclassified": unclassified})
	// two warm-up blocks (CheckTx needs committed state)
	for i := 0; i < 2; i++ {
		if err := d.block(nil); err != nil {
			return w.N, err
		}
	}
	byMode := map[string][]anteCase{}
	for _, c := range cases {
		byMode[c.Mode] = append(byMode[c.Mode], c)
	}
	const batch = 40
	for _, mode := range []string{"check", "recheck", "simulate", "prepare", "process", "finalize"} {
		cs := byMode[mode]
		for len(cs) > 0 {
			n := batch
			if mode == "finalize" {
				n = 12
			}
			if n > len(cs) {
				n = len(cs)
			}
			if err := d.batch(mode, cs[:n]); err != nil {
				return w.N, fmt.Errorf("mode %s: %w", mode, err)
			}
			cs = cs[n:]
		}
	}
	return w.N, nil
}

// block runs one height on both replicas; extra transactions (case transactions) only on replica A.
func (d *anteDriver) block(extra [][]byte) error {
	a, b := d.a, d.b
	h := a.C.Height + 1
	a.Tick++
	b.Tick = a.Tick
	var resA *abci.ResponseFinalizeBlock
	var firstTx []byte // the first block is built by the real PrepareProposal (random, wall clock): both replicas get the same bytes
	for i, s := range []*Session{a, b} {
		c := s.C
		blk := &sim.Block{Height: h, Time: c.TimeAt(s.Tick), Proposer: 0, Votes: c.DefaultVotes(h, nil)}
		c.Eng.NextRequests = lockGas(h)
		var tx0 []byte
		if h == c.InitialHeight {
			if firstTx == nil {
				pp, err := c.Prepare(blk, nil)
				if err != nil {
					return err
				}
				firstTx = pp.Txs[0]
			}
			tx0 = firstTx
		} else {
			pl, err := c.HonestPayload(0, 1)
			if err != nil {
				return err
			}
			var err2 error
			if tx0, err2 = c.BlockTx(0, h, pl, sim.SignOpts{}); err2 != nil {
				return err2
			}
		}
		blk.Txs = [][]byte{tx0}
		if i == 0 {
			blk.Txs = append(blk.Txs, extra...)
		}
		res, err := c.Finalize(blk)
		if err != nil {
			return err
		}
		if i == 0 {
			resA = res
		}
		c.ApplyUpdates(h, res.ValidatorUpdates)
		if err := c.Commit(); err != nil {
			return err
		}
		c.Eng.TakeLog()
	}
	_ = resA
	return nil
}

func lockGas(h int64) [][]byte {
	lk := EmptyLockingRequests(h)
	return lk.Encode()
}

func admittedByResult(code uint32, log string) bool {
	return code == 0 || strings.Contains(log, "failed to execute message")
}

func (d *anteDriver) signerKey(class string) (cryptotypes.PrivKey, string) {
	kr := d.a.C.KR
	switch class {
	case "proposer":
		return kr.Members[0].Priv, kr.Members[0].Bech
	case "voter":
		return kr.Members[1].Priv, kr.Members[1].Bech
	case "validator":
		return kr.Vals[0].Priv, sdk.MustBech32ifyAddressBytes("goat", kr.Vals[0].Addr)
	}
	return kr.Members[7].Priv, kr.Members[7].Bech
}

// build makes the concrete transaction of a case; used counts how many admitted transactions of each signer precede it
// in the state of the mode under test.
func (d *anteDriver) build(c anteCase, modeHeight int64, used map[string]uint64) ([]byte, bool, error) {
	priv, bech := d.signerKey(c.Signer)
	var msgs []sdk.Msg
	for _, cl := range c.Msgs {
		m, err := d.newMsg(cl, bech, 0)
		if err != nil {
			return nil, false, err
		}
		if m == nil {
			return nil, false, nil // no registered type of this class
		}
		msgs = append(msgs, m)
	}
	o := sim.SignOpts{}
	if c.Second {
		p2, b2 := d.signerKey("voter")
		if c.Signer == "voter" {
			p2, b2 = d.signerKey("proposer")
		}
		msgs = append(msgs, &relayertypes.MsgAcceptProposerRequest{Proposer: b2, Epoch: 99999})
		o.ExtraSigner = p2
	}
	if c.Memo {
		// "has a memo" in all its shapes: text, a single blank, other white space only, a NUL byte (all within auth's memo length limit)
		d.memoN++
		o.Memo = []string{"hello", " ", "\n", "\t \r\n", "\x00", "0", "  "}[d.memoN%7]
	}
	switch c.Timeout {
	case "past":
		o.TimeoutHeight = uint64(modeHeight - 1)
	case "now":
		o.TimeoutHeight = uint64(modeHeight)
	case "future":
		o.TimeoutHeight = uint64(modeHeight + 5)
	}
	o.BadSig = !c.SigOk
	_, seq, _ := d.a.C.Account(priv.PubKey().Address())
	seq += used[c.Signer]
	if !c.SeqOk {
		seq += 3
	}
	o.Seq = &seq
	bz, err := d.a.C.SignTx(priv, msgs, o)
	return bz, true, err
}

func (d *anteDriver) batch(mode string, cs []anteCase) error {
	a := d.a
	c := a.C
	used := map[string]uint64{}
	emit := func(cs anteCase, admitted bool, note string) {
		d.w.Emit(Ev{"ev": "case", "mode": cs.Mode, "msgs": cs.Msgs, "signer": cs.Signer, "second": cs.Second, "memo": cs.Memo, "timeout": cs.Timeout,
			"sigOk": cs.SigOk, "seqOk": cs.SeqOk, "admitted": admitted, "note": short(note)})
	}
	bump := func(cs anteCase) {
		if cs.Admit { // the specification's verdict is only a scheduling hint (sequence numbers of later cases)
			used[cs.Signer]++
			if cs.Second {
				if cs.Signer == "voter" {
					used["proposer"]++
				} else {
					used["voter"]++
				}
			}
		}
	}
	switch mode {
	case "check", "recheck", "simulate":
		// a fresh check state: commit an empty block first
		if err := d.block(nil); err != nil {
			return err
		}
		hmode := c.Height // the check state carries the header of the last committed block
		for _, cs := range cs {
			if mode == "simulate" && strings.Contains(strings.Join(cs.Msgs, ","), "block") {
				continue // the block message's handler needs consensus information that only exists inside a block (it panics, recovered)
			}
			bz, ok, err := d.build(cs, hmode, used)
			if err != nil {
				return err
			}
			if !ok {
				continue
			}
			switch mode {
			case "simulate":
				_, _, err := c.App.Simulate(bz)
				emit(cs, err == nil || strings.Contains(err.Error(), "failed to execute message"), errStr(err))
				// simulation never persists: no sequence moves
			default:
				typ := abci.CheckTxType_New
				if mode == "recheck" {
					typ = abci.CheckTxType_Recheck
				}
				res, err := c.App.CheckTx(&abci.RequestCheckTx{Tx: bz, Type: typ})
				if err != nil {
					return err
				}
				emit(cs, res.Code == 0, res.Log)
				bump(cs)
			}
		}
	case "prepare", "process":
		h := c.Height + 1
		blk := &sim.Block{Height: h, Time: c.TimeAt(a.Tick + 1), Proposer: 0, Votes: c.DefaultVotes(h, nil)}
		c.Eng.NextRequests = lockGas(h)
		pp, err := c.Prepare(blk, nil)
		if err != nil {
			return err
		}
		if mode == "process" {
			blk.Txs = pp.Txs
			if _, err := c.Process(blk); err != nil {
				return err
			}
			// the honest block transaction was verified in this state: the validator's sequence moved by one
			used["validator"]++
		}
		c.Eng.TakeLog()
		for _, cs := range cs {
			bz, ok, err := d.build(cs, h, used)
			if err != nil {
				return err
			}
			if !ok {
				continue
			}
			var verr error
			if mode == "prepare" {
				tx, derr := c.TxCfg.TxDecoder()(bz)
				if derr != nil {
					return derr
				}
				_, verr = c.App.PrepareProposalVerifyTx(tx)
			} else {
				_, verr = c.App.ProcessProposalVerifyTx(bz)
			}
			emit(cs, verr == nil, errStr(verr))
			bump(cs)
		}
	case "finalize":
		h := c.Height + 1
		used["validator"]++ // the block transaction comes first
		var txs [][]byte
		var kept []anteCase
		for _, cs := range cs {
			bz, ok, err := d.build(cs, h, used)
			if err != nil {
				return err
			}
			if !ok {
				continue
			}
			txs = append(txs, bz)
			kept = append(kept, cs)
			bump(cs)
		}
		// Replica B first executes the block WITHOUT the case transactions (its app hash is what "nothing happened" looks
		// like), is then dropped without committing, and finally both replicas execute and commit the full block.
		a.Tick++
		d.b.Tick = a.Tick
		mk := func(cc *sim.Chain, s *Session, with bool) (*sim.Block, error) {
			blk := &sim.Block{Height: h, Time: cc.TimeAt(s.Tick), Proposer: 0, Votes: cc.DefaultVotes(h, nil)}
			cc.Eng.NextRequests = lockGas(h)
			pl, err := cc.HonestPayload(0, 1)
			if err != nil {
				return nil, err
			}
			tx0, err := cc.BlockTx(0, h, pl, sim.SignOpts{})
			if err != nil {
				return nil, err
			}
			blk.Txs = [][]byte{tx0}
			if with {
				blk.Txs = append(blk.Txs, txs...)
			}
			return blk, nil
		}
		blkB, err := mk(d.b.C, d.b, false)
		if err != nil {
			return err
		}
		resB, err := d.b.C.Finalize(blkB)
		if err != nil {
			return err
		}
		appB := resB.AppHash
		if err := d.b.C.Restart(); err != nil {
			return err
		}
		var resA *abci.ResponseFinalizeBlock
		var appA []byte
		for i, s := range []*Session{a, d.b} {
			cc := s.C
			blk, err := mk(cc, s, true)
			if err != nil {
				return err
			}
			res, err := cc.Finalize(blk)
			if err != nil {
				return err
			}
			cc.ApplyUpdates(h, res.ValidatorUpdates)
			if err := cc.Commit(); err != nil {
				return err
			}
			cc.Eng.TakeLog()
			if i == 0 {
				resA, appA = res, res.AppHash
			}
		}
		any := false
		for i, cs := range kept {
			r := resA.TxResults[i+1]
			adm := admittedByResult(r.Code, r.Log)
			any = any || adm
			emit(cs, adm, r.Log)
		}
		same := string(appA) == string(appB)
		d.w.Emit(Ev{"ev": "block", "h": h, "anyAdmitted": any, "same": same, "ncases": len(kept)})
	}
	return nil
}
