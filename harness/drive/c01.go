package drive

import (
	"encoding/hex"
	"encoding/json"
	"fmt"
	"math"
	"sort"

	sdk "github.com/cosmos/cosmos-sdk/types"
	bitcointypes "github.com/goatnetwork/goat/x/bitcoin/types"
	relayertypes "github.com/goatnetwork/goat/x/relayer/types"
	"goatverif/btc"
	"goatverif/project"
	"goatverif/sim"
	"goatverif/tracew"
	"goatverif/vote"
)

func bitcoinDefault() *bitcointypes.GenesisState { return bitcointypes.DefaultGenesis() }

type votedCase struct {
	N       int    `json:"n"`
	Kind    string `json:"kind"`
	Marks   []int  `json:"marks"`
	Signers []int  `json:"signers"`
	Mut     string `json:"mut"`
	Size    int    `json:"size"`  // payload-binding cases (F3): number of items in the message
	Field   string `json:"field"` // ... and the field changed after the quorum signed ("none": unchanged)
	Acc     bool   `json:"acc"`
	variant int
}

var methodOf = map[string]string{
	"NewBlockHashes":    bitcointypes.NewBlocksMethodSigName,
	"NewPubkey":         bitcointypes.NewPubkeyMethodSigName,
	"NewConsolidation":  bitcointypes.NewConsolidationMethodSigName,
	"ProcessWithdrawal": bitcointypes.ProcessWithdrawalMethodSigName,
	"ReplaceWithdrawal": bitcointypes.ReplaceWithdrawalMethodSigName,
}

// VoteSpec says how a concrete vote is to be produced for a message.
type VoteSpec struct {
	Marks     []int  // model bit positions
	RealMarks []int  // real bit positions (defaults to Marks)
	Signers   []int  // member ids (1-based); 0 = the outsider
	Mut       string // sign-doc / field corruption
	BitmapLen int
}

// voteCtx is the relayer state a vote is built against.
type voteCtx struct {
	Seq, Epoch uint64
	Proposer   int   // member id
	Voters     []int // member ids
	Tip        uint64
	CurKey     *relayertypes.PublicKey
}

func (s *Session) voteCtx() (*voteCtx, error) {
	st, err := project.Relayer(s.C)
	if err != nil {
		return nil, err
	}
	vc := &voteCtx{Seq: uint64(st.Seq), Epoch: uint64(st.Epoch), Proposer: st.Proposer, Voters: st.Voters, Tip: uint64(st.Tip)}
	if pk, err := s.C.App.BitcoinKeeper.Pubkey.Get(s.C.ReadCtx()); err == nil {
		vc.CurKey = &pk
	}
	return vc, nil
}

const outsiderIdx = 7 // member index of the identity that never joins the group

func (s *Session) member(id int) *sim.Member {
	if id == 0 {
		return s.C.KR.Members[outsiderIdx]
	}
	return s.C.KR.Members[id-1]
}

// BuildVote produces the Votes sub-message and the abstract description of what was signed.
// kind/payload identify the message the vote is attached to; data is that message's VoteSigDoc().
func (s *Session) BuildVote(vc *voteCtx, kind, payload string, data []byte, vs VoteSpec) (*relayertypes.Votes, Ev, []byte) {
	chain, seq, epoch, method, prop, pl := s.C.ChainID, vc.Seq, vc.Epoch, methodOf[kind], s.member(vc.Proposer).Bech, data
	doc := Ev{"chain": "this", "seq": int64(seq), "epoch": int64(epoch), "kind": kind, "proposer": vc.Proposer, "payload": payload}
	small := func(v uint64) int64 {
		if v > math.MaxInt32 {
			return -1
		}
		return int64(v)
	}
	switch vs.Mut {
	case "chain":
		chain = "another-chain"
		doc["chain"] = "other"
	case "seqPlus":
		seq++
		doc["seq"] = small(seq)
	case "seqMinus":
		seq--
		doc["seq"] = small(seq)
	case "epochPlus":
		epoch++
		doc["epoch"] = small(epoch)
	case "epochMinus":
		epoch--
		doc["epoch"] = small(epoch)
	case "otherKind":
		method = "Bitcoin/SomethingElse"
		if kind != "NewPubkey" {
			method = bitcointypes.NewPubkeyMethodSigName
			doc["kind"] = "NewPubkey"
		} else {
			method = bitcointypes.NewBlocksMethodSigName
			doc["kind"] = "NewBlockHashes"
		}
	case "otherProposer":
		prop = s.member(0).Bech
		doc["proposer"] = 0
	case "otherPayload":
		pl = append(append([]byte{}, data...), 0x01)
		doc["payload"] = payload + "'"
	}
	sigdoc := vote.Doc(method, chain, prop, seq, epoch, pl)
	var signers []*sim.Member
	for _, id := range vs.Signers {
		signers = append(signers, s.member(id))
	}
	sig := vote.Aggregate(signers, sigdoc)
	sigOk := true
	if sig == nil { // nobody signed: the identity element is a syntactically valid signature
		sig = make([]byte, 48)
		sig[0] = 0xc0
	}
	if vs.Mut == "badSig" {
		sig = hash32([]byte("badsig"), sigdoc)
		sig = append(sig, sig[:16]...)
		sig[0] |= 0x80
		sig[0] &^= 0x40
		sigOk = false
	}
	real := vs.RealMarks
	if real == nil {
		real = vs.Marks
	}
	blen := vs.BitmapLen
	if blen < 0 {
		blen = 0
	}
	v := &relayertypes.Votes{Sequence: vc.Seq, Epoch: vc.Epoch, Voters: vote.Bitmap(real, blen), Signature: sig}
	f := Ev{"mseq": int64(vc.Seq), "mepoch": int64(vc.Epoch), "enc": "canon"}
	if vs.BitmapLen < 0 {
		// the same marks in a NON-CANONICAL encoding: trailing zero bytes cut off (the length is no multiple of 8 any more). Whether
		// such an encoding is admissible is not part of the property; if it is accepted, the quorum behind it must be genuine
		bm := v.Voters
		for len(bm) > 1 && bm[len(bm)-1] == 0 {
			bm = bm[:len(bm)-1]
		}
		if len(bm)%8 != 0 {
			v.Voters, f["enc"] = bm, "trimmed"
		}
	}
	switch vs.Mut {
	case "msgSeqPlus":
		v.Sequence++
		f["mseq"] = small(v.Sequence)
	case "msgSeqMinus":
		v.Sequence--
		f["mseq"] = small(v.Sequence)
	case "msgEpochPlus":
		v.Epoch++
		f["mepoch"] = small(v.Epoch)
	case "msgEpochMinus":
		v.Epoch--
		f["mepoch"] = small(v.Epoch)
	}
	marks := append([]int{}, vs.Marks...)
	sort.Ints(marks)
	sg := append([]int{}, vs.Signers...)
	sort.Ints(sg)
	f["marks"], f["signers"], f["doc"], f["sigOk"] = marks, sg, doc, sigOk
	f["kind"], f["payload"] = kind, payload
	return v, f, sig
}

// votedMsg builds a well-formed message of the given kind against the current bridge state.
type votedMsg struct {
	Msg     sdk.Msg
	SetVote func(*relayertypes.Votes)
	Data    []byte
	Payload string
	Extra   Ev
}

func (s *Session) newVotedMsg0(vc *voteCtx, kind string, proposerBech string) (*votedMsg, error) {
	n := s.NewVid()
	payload := fmt.Sprintf("p%d", n)
	switch kind {
	case "NewBlockHashes":
		nh := s.R.Intn(3) // an empty batch is a valid proposal too: it moves nothing but consumes its sequence number
		m := &bitcointypes.MsgNewBlockHashes{Proposer: proposerBech, StartBlockNumber: vc.Tip + 1}
		for i := 0; i < nh; i++ {
			m.BlockHash = append(m.BlockHash, hash32([]byte(payload), []byte(s.C.ChainID), []byte{byte(i)}))
		}
		return &votedMsg{Msg: m, SetVote: func(v *relayertypes.Votes) { m.Vote = v }, Data: m.VoteSigDoc(), Payload: payload,
			Extra: Ev{"pre": true, "post": true, "start": int64(vc.Tip + 1), "nh": nh}}, nil
	case "NewPubkey":
		k := sim.NewBtcKey(int64(n)*7919+s.R.Int63n(1000), n, n%2 == 0)
		m := &bitcointypes.MsgNewPubkey{Proposer: proposerBech, Pubkey: k.Pub}
		raw := relayertypes.EncodePublicKey(k.Pub)
		return &votedMsg{Msg: m, SetVote: func(v *relayertypes.Votes) { m.Vote = v }, Data: m.VoteSigDoc(), Payload: payload,
			Extra: Ev{"pre": true, "post": true, "key": fmt.Sprintf("%x", raw[:5])}}, nil
	case "NewConsolidation":
		outs := []btc.Out{{Value: 50_000, Script: btc.SystemScript(vc.CurKey)}}
		single := true
		if s.R.Intn(8) == 0 { // a consolidation has exactly one output
			single = false
			if s.R.Intn(2) == 0 {
				outs = append(outs, btc.Out{Value: 600, Script: btc.SystemScript(vc.CurKey)})
			} else {
				outs = append([]btc.Out{{Value: 600, Script: []byte{0x51}}}, outs...)
			}
		}
		raw, _ := btc.Tx(s.R, outs, 0)
		m := &bitcointypes.MsgNewConsolidation{Proposer: proposerBech, NoWitnessTx: raw}
		return &votedMsg{Msg: m, SetVote: func(v *relayertypes.Votes) { m.Vote = v }, Data: m.VoteSigDoc(), Payload: payload,
			Extra: Ev{"pre": single, "post": true, "payTo": fmt.Sprintf("%x", relayertypes.EncodePublicKey(vc.CurKey)[:5])}}, nil
	}
	return nil, fmt.Errorf("unknown kind %s", kind)
}

// newVotedMsg builds a voted message of the given kind; its payload id is derived from the signed content, so that two
// messages with byte-identical content (e.g. two empty hash batches starting at the same height) are the SAME payload.
func (s *Session) newVotedMsg(vc *voteCtx, kind string, proposerBech string) (*votedMsg, error) {
	vm, err := s.newVotedMsg0(vc, kind, proposerBech)
	if err != nil {
		return nil, err
	}
	vm.Payload = "p" + hex.EncodeToString(hash32(vm.Data)[:5])
	return vm, nil
}

// VotedTx assembles a complete signed transaction carrying a voted message.
func (s *Session) VotedTx(vc *voteCtx, kind string, vs VoteSpec, seqOffset int) (*RelTx, error) {
	pfID := vc.Proposer
	switch vs.Mut {
	case "pfVoter":
		pfID = 0
		if len(vc.Voters) > 0 {
			pfID = vc.Voters[0]
		}
	case "pfOutsider":
		pfID = 0
	}
	signer := s.member(pfID)
	vm, err := s.newVotedMsg(vc, kind, signer.Bech)
	if err != nil {
		return nil, err
	}
	v, f, sig := s.BuildVote(vc, kind, vm.Payload, vm.Data, vs)
	vm.SetVote(v)
	for k, x := range vm.Extra {
		f[k] = x
	}
	f["pf"] = pfID
	fillVoteDefaults(f)
	_, accSeq, _ := s.C.Account(signer.Addr)
	sq := accSeq + uint64(seqOffset)
	bz, err := s.C.SignTx(signer.Priv, []sdk.Msg{vm.Msg}, sim.SignOpts{Seq: &sq})
	if err != nil {
		return nil, err
	}
	return &RelTx{Bytes: bz, Ev: "vote", F: f, Sig: sig, Vid: s.NewVid(), Votes: v, Msg: vm.Msg}, nil
}

func fillVoteDefaults(f Ev) {
	for k, d := range map[string]interface{}{"key": "", "payTo": "", "start": 0, "nh": 0, "enc": "canon"} {
		if _, ok := f[k]; !ok {
			f[k] = d
		}
	}
}

// EmitInit logs the state a chain starts from.
func (s *Session) EmitInit() error {
	st, err := project.Relayer(s.C)
	if err != nil {
		return err
	}
	s.emit(s.RelW, "init", Ev{"t": s.Tick, "h": s.C.Height, "st": s.relView(st)})
	return nil
}

// VotedReplay replays the TLC-enumerated C01 case table on real chains, one chain per group size.
func VotedReplay(casesFile, outFile string, seed int64, inst int) (int, error) {
	byN := map[int][]votedCase{}
	err := tracew.ReadNDJSON(casesFile, func(line []byte) error {
		var c votedCase
		if err := json.Unmarshal(line, &c); err != nil {
			return err
		}
		byN[c.N] = append(byN[c.N], c)
		return nil
	})
	if err != nil {
		return 0, err
	}
	w, err := tracew.Create(outFile)
	if err != nil {
		return 0, err
	}
	defer w.Close()
	var ns []int
	for n := range byN {
		ns = append(ns, n)
	}
	sort.Ints(ns)
	run := 0
	for _, n := range ns {
		for k := 0; k < inst; k++ {
			run++
			if err := votedRun(w, byN[n], n, seed, k, run); err != nil {
				return w.N, fmt.Errorf("n=%d inst=%d: %w", n, k, err)
			}
		}
	}
	return w.N, nil
}

func votedRun(w *tracew.Writer, cases []votedCase, n int, seed int64, inst, run int) error {
	voters := make([]int, n)
	for i := range voters {
		voters[i] = i + 1
	}
	c, _, err := NewStdChain(ChainOpts{ChainID: "goat-c01", Seed: seed, NVals: 1, NMembers: 8, Voters: voters, Proposer: 0, Period: 100000, AcceptTimeout: 100000})
	if err != nil {
		return err
	}
	defer c.Close()
	s := NewSession(c, seed*1000+int64(run), run)
	s.RelW = w
	if err := s.EmitInit(); err != nil {
		return err
	}
	// warm-up block so that sequence/epoch based mutations have room (and CheckTx state exists)
	if _, err := s.RunBlock(&BlockPlan{DT: 1, Proposer: 0}); err != nil {
		return err
	}
	// rejects first, then one expected accept, per block; a case that marks positions beyond the voter list is replayed once
	// per mapping of those model positions to real bit positions (exactly n and n+1, word boundaries, far away)
	var rej, acc, bind []votedCase
	for _, cs := range cases {
		if cs.Size > 0 {
			bind = append(bind, cs)
			continue
		}
		beyondMarks := false
		for _, mk := range cs.Marks {
			beyondMarks = beyondMarks || mk >= n
		}
		variants := 1
		if beyondMarks {
			variants = 4
		}
		for v := 0; v < variants; v++ {
			c2 := cs
			c2.variant = v
			if c2.Acc {
				acc = append(acc, c2)
			} else {
				rej = append(rej, c2)
			}
		}
	}
	s.R.Shuffle(len(rej), func(i, j int) { rej[i], rej[j] = rej[j], rej[i] })
	const perBlock = 12
	for len(rej) > 0 || len(acc) > 0 {
		vc, err := s.voteCtx()
		if err != nil {
			return err
		}
		plan := &BlockPlan{DT: 1, Proposer: 0}
		take := perBlock
		if take > len(rej) {
			take = len(rej)
		}
		batch := append([]votedCase{}, rej[:take]...)
		rej = rej[take:]
		if len(acc) > 0 {
			batch = append(batch, acc[0])
			acc = acc[1:]
		}
		offsets := map[int]int{}
		for _, cs := range batch {
			real := make([]int, len(cs.Marks))
			beyond := [][2]int{{n, n + 1}, {64, 255}, {200, 129}, {63 + n, 127}}[(inst+cs.variant)%4]
			for i, mk := range cs.Marks {
				switch {
				case mk < n:
					real[i] = mk
				case mk == n:
					real[i] = beyond[0]
				default:
					real[i] = beyond[1]
				}
			}
			// map model signer ids: 0 outsider, 1 proposer, k+2 voter k  ->  member ids
			sg := make([]int, len(cs.Signers))
			for i, x := range cs.Signers {
				sg[i] = x // proposer is member id 1, voter k is member id k+2: identical numbering
			}
			vs := VoteSpec{Marks: cs.Marks, RealMarks: real, Signers: sg, Mut: cs.Mut, BitmapLen: []int{0, 32, 8, 16, -1}[(inst+cs.variant)%5]}
			pfID := vc.Proposer
			if cs.Mut == "pfVoter" && len(vc.Voters) > 0 {
				pfID = vc.Voters[0]
			} else if cs.Mut == "pfVoter" || cs.Mut == "pfOutsider" {
				pfID = 0
			}
			if pfID != vc.Proposer {
				plan.SkipProcess = true
			}
			tx, err := s.VotedTx(vc, cs.Kind, vs, offsets[pfID])
			if err != nil {
				return err
			}
			offsets[pfID]++
			plan.Txs = append(plan.Txs, tx)
		}
		if _, err := s.RunBlock(plan); err != nil {
			return err
		}
	}
	for _, cs := range bind {
		if err := s.bindCase(cs); err != nil {
			return err
		}
	}
	return nil
}

// bindCase (family F3): an honest quorum signs a real message of the given type and size (what they sign is the message's
// own VoteSigDoc, computed by the real code); then one field is changed and the real keeper verifies the proposal.
func (s *Session) bindCase(cs votedCase) error {
	vc, err := s.voteCtx()
	if err != nil {
		return err
	}
	r := s.R
	bech := s.member(vc.Proposer).Bech
	rb := func(n int) []byte { b := make([]byte, n); r.Read(b); return b }
	var msg relayertypes.IVoteMsg
	var setVote func(*relayertypes.Votes)
	var mutate func() bool // applies the change; false if the field does not exist for this message
	switch cs.Kind {
	case "NewBlockHashes":
		m := &bitcointypes.MsgNewBlockHashes{Proposer: bech, StartBlockNumber: vc.Tip + 1}
		for i := 0; i < cs.Size; i++ {
			m.BlockHash = append(m.BlockHash, rb(32))
		}
		msg, setVote = m, func(v *relayertypes.Votes) { m.Vote = v }
		mutate = func() bool {
			switch cs.Field {
			case "start":
				m.StartBlockNumber++
			case "hashFirst":
				m.BlockHash[0] = flipLastBit(m.BlockHash[0])
			case "hashLast":
				m.BlockHash[len(m.BlockHash)-1] = flipLastBit(m.BlockHash[len(m.BlockHash)-1])
			case "dropLast":
				m.BlockHash = m.BlockHash[:len(m.BlockHash)-1]
			case "append":
				m.BlockHash = append(m.BlockHash, rb(32))
			case "swap":
				if len(m.BlockHash) < 2 {
					m.StartBlockNumber++ // nothing to reorder: some other change
				} else {
					m.BlockHash[0], m.BlockHash[1] = m.BlockHash[1], m.BlockHash[0]
				}
			case "rechunk": // the same concatenated bytes, cut at another place: 48 + 16 bytes instead of 32 + 32
				if len(m.BlockHash) < 2 {
					m.StartBlockNumber++
				} else {
					a, b := m.BlockHash[0], m.BlockHash[1]
					m.BlockHash[0] = append(append([]byte{}, a...), b[:16]...)
					m.BlockHash[1] = append([]byte{}, b[16:]...)
				}
			case "reverse":
				if len(m.BlockHash) < 2 {
					m.StartBlockNumber++
				} else {
					for i, j := 0, len(m.BlockHash)-1; i < j; i, j = i+1, j-1 {
						m.BlockHash[i], m.BlockHash[j] = m.BlockHash[j], m.BlockHash[i]
					}
				}
			default:
				return false
			}
			return true
		}
	case "NewPubkey":
		k := sim.NewBtcKey(r.Int63(), 1, r.Intn(2) == 0)
		m := &bitcointypes.MsgNewPubkey{Proposer: bech, Pubkey: k.Pub}
		msg, setVote = m, func(v *relayertypes.Votes) { m.Vote = v }
		mutate = func() bool {
			if cs.Field != "key" {
				return false
			}
			m.Pubkey = sim.NewBtcKey(r.Int63(), 2, keyType(k) == "schnorr").Pub
			return true
		}
	case "NewConsolidation":
		raw, _ := btc.Tx(r, []btc.Out{{Value: 50_000, Script: btc.SystemScript(vc.CurKey)}}, 0)
		m := &bitcointypes.MsgNewConsolidation{Proposer: bech, NoWitnessTx: raw}
		msg, setVote = m, func(v *relayertypes.Votes) { m.Vote = v }
		mutate = func() bool {
			if cs.Field != "tx" {
				return false
			}
			m.NoWitnessTx = flipLastBit(m.NoWitnessTx)
			return true
		}
	case "ProcessWithdrawal":
		raw, _ := btc.Tx(r, []btc.Out{{Value: 50_000, Script: btc.SystemScript(vc.CurKey)}}, 0)
		m := &bitcointypes.MsgProcessWithdrawal{Proposer: bech, NoWitnessTx: raw, TxFee: uint64(1000 + r.Intn(100000))}
		for i := 0; i < cs.Size; i++ {
			m.Id = append(m.Id, uint64(1+i)+uint64(r.Intn(3))<<uint(8*r.Intn(8)))
		}
		msg, setVote = m, func(v *relayertypes.Votes) { m.Vote = v }
		mutate = func() bool {
			switch cs.Field {
			case "idFirst":
				m.Id[0] ^= 1 << uint(r.Intn(64))
			case "idLast":
				m.Id[len(m.Id)-1] ^= 1 << uint(r.Intn(64))
			case "dropId":
				m.Id = m.Id[:len(m.Id)-1]
			case "appendId":
				m.Id = append(m.Id, r.Uint64())
			case "tx":
				m.NoWitnessTx = flipLastBit(m.NoWitnessTx)
			case "fee":
				m.TxFee += []uint64{1, 1 << 8, 1 << 32, 1 << 56, 4999000}[r.Intn(5)]
			case "swap": // the ids in another order: output i of the transaction pays id i, so the order is part of what was voted
				if len(m.Id) < 2 || m.Id[0] == m.Id[1] {
					m.TxFee++
				} else {
					m.Id[0], m.Id[1] = m.Id[1], m.Id[0]
				}
			case "reverse":
				if len(m.Id) < 2 || m.Id[0] == m.Id[len(m.Id)-1] {
					m.TxFee++
				} else {
					for i, j := 0, len(m.Id)-1; i < j; i, j = i+1, j-1 {
						m.Id[i], m.Id[j] = m.Id[j], m.Id[i]
					}
				}
			default:
				return false
			}
			return true
		}
	case "ReplaceWithdrawal":
		raw, _ := btc.Tx(r, []btc.Out{{Value: 50_000, Script: btc.SystemScript(vc.CurKey)}}, 0)
		m := &bitcointypes.MsgReplaceWithdrawal{Proposer: bech, Pid: uint64(r.Intn(1000)), NewNoWitnessTx: raw, NewTxFee: uint64(1000 + r.Intn(100000))}
		msg, setVote = m, func(v *relayertypes.Votes) { m.Vote = v }
		mutate = func() bool {
			switch cs.Field {
			case "pid":
				m.Pid ^= 1 << uint(r.Intn(64))
			case "tx":
				m.NewNoWitnessTx = flipLastBit(m.NewNoWitnessTx)
			case "fee":
				m.NewTxFee += []uint64{1, 1 << 8, 1 << 32, 1 << 56}[r.Intn(4)]
			default:
				return false
			}
			return true
		}
	default:
		return fmt.Errorf("bind case: unknown kind %s", cs.Kind)
	}
	payload := fmt.Sprintf("b%d", s.NewVid())
	signed := msg.VoteSigDoc() // what the quorum signs: the real code's bytes for the ORIGINAL content
	v, f, _ := s.BuildVote(vc, cs.Kind, payload, signed, VoteSpec{Marks: cs.Marks, Signers: cs.Signers})
	setVote(v)
	if cs.Field != "none" {
		if !mutate() {
			return fmt.Errorf("bind case: %s has no field %s", cs.Kind, cs.Field)
		}
		f["payload"] = payload + "~" + cs.Field // a different content is a different payload
	}
	ctx, _ := s.C.ReadCtx().CacheContext()
	// what the message server does with a voted message before anything else: stateless validation, then the quorum check
	var verr error
	if v, ok := msg.(interface{ Validate() error }); ok {
		verr = v.Validate()
	}
	if verr == nil {
		_, verr = s.C.App.RelayerKeeper.VerifyProposal(ctx, msg)
	}
	f["pf"], f["ok"], f["size"], f["field"], f["log"] = vc.Proposer, verr == nil, cs.Size, cs.Field, short(errStr(verr))
	s.emit(s.RelW, "verify", f)
	return nil
}

func flipLastBit(b []byte) []byte {
	out := append([]byte{}, b...)
	out[len(out)-1] ^= 1
	return out
}
