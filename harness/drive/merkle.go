package drive

import (
	"encoding/json"
	"math/rand"
	"sync"

	goatcrypto "github.com/goatnetwork/goat/pkg/crypto"
	bitcointypes "github.com/goatnetwork/goat/x/bitcoin/types"
	"goatverif/tracew"
)

// MerkleTree is the reference Bitcoin Merkle tree (duplicate-last rule) over real double-SHA256.
type MerkleTree struct{ Levels [][][]byte }

func NewMerkleTree(leaves [][]byte) *MerkleTree {
	t := &MerkleTree{Levels: [][][]byte{leaves}}
	cur := leaves
	for len(cur) > 1 {
		var up [][]byte
		for i := 0; i < len(cur); i += 2 {
			l, r := cur[i], cur[i]
			if i+1 < len(cur) {
				r = cur[i+1]
			}
			up = append(up, goatcrypto.DoubleSHA256Sum(append(append([]byte{}, l...), r...)))
		}
		t.Levels = append(t.Levels, up)
		cur = up
	}
	return t
}

func (t *MerkleTree) Root() []byte { return t.Levels[len(t.Levels)-1][0] }

func (t *MerkleTree) Path(i int) [][]byte {
	var p [][]byte
	for _, lvl := range t.Levels[:len(t.Levels)-1] {
		sib := i ^ 1
		if sib >= len(lvl) {
			sib = i
		}
		p = append(p, lvl[sib])
		i /= 2
	}
	return p
}

func flat(p [][]byte) []byte {
	var out []byte
	for _, n := range p {
		out = append(out, n...)
	}
	return out
}

type MerkleCase struct {
	N    int    `json:"n"`
	I    int    `json:"i"`
	P    int    `json:"p"`
	Hi   int    `json:"hi"`
	Kind string `json:"kind"`
	Arg  int    `json:"arg"`
	Inst int    `json:"inst"`
	Impl bool   `json:"impl"`
	// Again is the verdict of the SAME call repeated after the genuine proof of the same leaf (same concrete hashes) was
	// verified in between: inclusion is a relation on (leaf, position, path, root), not on the history of calls.
	Again bool `json:"again"`
}

func rnd32(r *rand.Rand) []byte {
	b := make([]byte, 32)
	r.Read(b)
	return b
}

// merkleArgs is one concrete call of VerifyMerkelProof.
type merkleArgs struct {
	leaf, root, raw []byte
	pos             uint32
}

// MerkleReplay runs every TLC-enumerated case against the real VerifyMerkelProof, inst random instantiations of the ideal hashes
// per case: sequentially (with the genuine proof of the same leaf verified in between, see Again), and then ALL recorded calls
// once more from 8 goroutines at the same time - inclusion is a relation on its arguments: neither the history of calls nor what
// other verifications run concurrently (CheckTx, queries and block execution do) may change an answer.
func MerkleReplay(casesFile, outFile string, seed int64, inst int) (int, error) {
	w, err := tracew.Create(outFile)
	if err != nil {
		return 0, err
	}
	defer w.Close()
	r := rand.New(rand.NewSource(seed))
	var cases []*MerkleCase
	var calls []merkleArgs
	err = tracew.ReadNDJSON(casesFile, func(line []byte) error {
		var c MerkleCase
		if err := json.Unmarshal(line, &c); err != nil {
			return err
		}
		for k := 0; k < inst; k++ {
			cc := c
			cc.Inst = k
			var a merkleArgs
			cc.Impl, cc.Again, a = merkleCall(r, &cc)
			cases = append(cases, &cc)
			calls = append(calls, a)
		}
		return nil
	})
	if err != nil {
		return 0, err
	}
	const workers = 8
	var wg sync.WaitGroup
	conc := make([]bool, len(calls))
	for g := 0; g < workers; g++ {
		wg.Add(1)
		go func(g int) {
			defer wg.Done()
			for round := 0; round < 2; round++ {
				for i := g; i < len(calls); i += workers {
					a := calls[i]
					v := bitcointypes.VerifyMerkelProof(a.leaf, a.root, a.raw, a.pos)
					if round == 0 || v != cases[i].Impl {
						conc[i] = v
					}
				}
			}
		}(g)
	}
	wg.Wait()
	for i, c := range cases {
		if conc[i] != c.Impl {
			c.Again = conc[i] // the concurrent answer differs from the sequential one: reported through the same field
		}
		w.Emit(c)
	}
	return len(cases), nil
}

func merkleCall(r *rand.Rand, c *MerkleCase) (bool, bool, merkleArgs) {
	leaves := make([][]byte, c.N)
	for i := range leaves {
		leaves[i] = rnd32(r)
	}
	t := NewMerkleTree(leaves)
	g := t.Path(c.I)
	leaf, root := leaves[c.I], t.Root()
	path := append([][]byte{}, g...)
	var raw []byte
	switch c.Kind {
	case "genuine":
	case "trunc":
		if c.Arg <= len(g) {
			path = path[:len(g)-c.Arg]
		} else {
			path = nil
		}
	case "dropfirst":
		if len(path) > 0 {
			path = path[1:]
		}
	case "extendFresh":
		path = append(path, rnd32(r))
	case "extendRoot":
		path = append(path, root)
	case "prependFresh":
		path = append([][]byte{rnd32(r)}, path...)
	case "swap":
		if c.Arg >= 1 && c.Arg+1 <= len(path) {
			path[c.Arg-1], path[c.Arg] = path[c.Arg], path[c.Arg-1]
		}
	case "replaceFresh":
		if c.Arg >= 1 && c.Arg <= len(path) {
			path[c.Arg-1] = rnd32(r)
		}
	case "otherLeaf":
		path = t.Path(c.Arg % c.N)
	case "ragged":
		raw = flat(path)
		switch {
		case len(raw) == 0 || c.Inst%2 == 1:
			raw = append(raw, byte(1+r.Intn(255)))
		default:
			raw = raw[:len(raw)-1-r.Intn(31)]
		}
	case "leafSize":
		if c.Inst%2 == 0 {
			leaf = leaf[:31]
		} else {
			leaf = append(append([]byte{}, leaf...), 0)
		}
	case "rootSize":
		if c.Inst%2 == 0 {
			root = root[:31]
		} else {
			root = append(append([]byte{}, root...), 0)
		}
	case "wrongRoot":
		root = rnd32(r)
	}
	if raw == nil {
		raw = flat(path)
	}
	pos := uint32(c.P)
	if c.Hi == 1 {
		pos |= []uint32{1 << 31, 1 << 24, 1 << 20, 1<<31 | 1<<30}[c.Inst%4]
	}
	first := bitcointypes.VerifyMerkelProof(leaf, root, raw, pos)
	// the genuine proof of the same leaf at its real position, then the very same question again
	bitcointypes.VerifyMerkelProof(leaves[c.I], t.Root(), flat(g), uint32(c.I))
	return first, bitcointypes.VerifyMerkelProof(leaf, root, raw, pos), merkleArgs{leaf: leaf, root: root, raw: raw, pos: pos}
}
