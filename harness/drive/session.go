package drive

import (
	"bytes"
	"crypto/sha256"
	"encoding/binary"
	"encoding/hex"
	"fmt"
	"math/big"
	"math/rand"
	"regexp"
	"strconv"
	"time"

	abci "github.com/cometbft/cometbft/abci/types"
	dbm "github.com/cosmos/cosmos-db"
	cryptotypes "github.com/cosmos/cosmos-sdk/crypto/types"
	sdk "github.com/cosmos/cosmos-sdk/types"
	"github.com/ethereum/go-ethereum/core/types/goattypes"
	goatcrypto "github.com/goatnetwork/goat/pkg/crypto"
	goatmodtypes "github.com/goatnetwork/goat/x/goat/types"
	relayertypes "github.com/goatnetwork/goat/x/relayer/types"
	"goatverif/project"
	"goatverif/sim"
	"goatverif/tracew"
)

// Ev is one trace line.
type Ev map[string]interface{}

// Session couples one chain with the trace writers of the module specifications.
type Session struct {
	C    *sim.Chain
	R    *rand.Rand
	Run  int
	Tick int64 // time of the last block

	RelW         *tracew.Writer // relayer trace (may be nil)
	LockW        *tracew.Writer // locking trace (may be nil)
	BridgeW      *tracew.Writer // bridge trace (may be nil)
	bridgeAddrID func(string) string
	afterImport  bool // the next block is the first one of a chain initialised from an export
	OddBitmaps   bool // fullVote now and then trims the bitmap of a genuine vote (determinism histories only)

	// harness-side interning of the randomness accumulator: hash chain over accepted vote signatures
	rdao    []byte
	rdaoLog []int
	nextVid int
}

func NewSession(c *sim.Chain, seed int64, run int) *Session {
	return &Session{C: c, R: rand.New(rand.NewSource(seed)), Run: run, rdao: make([]byte, 32), rdaoLog: []int{}}
}

func (s *Session) emit(w *tracew.Writer, ev string, f Ev) {
	if w == nil {
		return
	}
	f["ev"] = ev
	f["run"] = s.Run
	w.Emit(f)
}

// NewVid allocates an id for a vote signature.
func (s *Session) NewVid() int { s.nextVid++; return s.nextVid }

// RelTx is a relayer-signed transaction together with the abstract event describing it.
type RelTx struct {
	Bytes []byte
	Ev    string // vote | newvoter | accept | nonvoted | raw
	F     Ev
	Sig   []byte // vote signature (for the accumulator)
	Vid   int
	Votes *relayertypes.Votes
	Msg   sdk.Msg  // the message itself (voted messages): a withheld vote is submitted later, unchanged
	Parts []*RelTx // a transaction with several messages: the single-message transactions it was merged from (their events describe the messages)
	BEv   string   // bridge-trace event (hashes | pubkey | deposits | process | replace | finalize | approve | other)
	BF    Ev
}

// BlockPlan is what a driver wants in the next block.
type BlockPlan struct {
	DT       int64 // ticks since the previous block
	Proposer int   // validator index; -1 = first member of CometBFT's current set
	Absent   map[int]bool
	Misb     []abci.Misbehavior
	Txs      []*RelTx
	Locking  *goattypes.LockingRequests // nil => just the mandatory gas request
	Bridge   *goattypes.BridgeRequests
	Relayer  *goattypes.RelayerRequests
	GasFee   int64
	// abstract description of the relayer requests (member ids) for the trace
	Adds, Removes []int
	UsePrepare    bool
	// BridgeAbs is the abstract description of the bridge requests, for the bridge trace.
	BridgeAbs Ev
	// LockAbs is the abstract (model-level) description of the locking requests, for the locking trace.
	LockAbs Ev
	// EvidAbs describes Misb for the trace: [{v,h,t,known}]
	EvidAbs []Ev
	// SkipProcess finalises the block without asking ProcessProposal first (a block that only a faulty
	// majority could have decided, e.g. one carrying transactions the admission guard refuses).
	SkipProcess bool
	// LockOU / BridgeOU ("others unknown"): the block message also carries possibly failing requests of another module, so the
	// locking / bridge trace can only demand "accepted => my requests were acceptable" and "failed => my state untouched".
	LockOU, BridgeOU bool
}

// HaltError reports that FinalizeBlock failed: on a real network the chain stops here.
type HaltError struct {
	Height int64
	Err    error
}

func (e *HaltError) Error() string {
	return fmt.Sprintf("chain halted at height %d: %v", e.Height, e.Err)
}

type BlockResult struct {
	Payload  *goatmodtypes.ExecutionPayload
	Block    *sim.Block
	Res      *abci.ResponseFinalizeBlock
	CometErr error
	Engine   []sim.EngineCall
}

func (s *Session) pickProposer(h int64) int {
	set := s.C.Sets[h]
	if set == nil || len(set.Validators) == 0 {
		return s.C.NodeVal
	}
	for _, v := range set.Validators {
		if id := s.C.KR.ValID(v.Address); id == s.C.NodeVal+1 {
			return s.C.NodeVal
		}
	}
	return s.C.KR.ValID(set.Validators[0].Address) - 1
}

// RunBlock drives one height through Process -> Finalize -> Commit with an honest execution-block message.
func (s *Session) RunBlock(p *BlockPlan) (*BlockResult, error) {
	c := s.C
	h := c.Height + 1
	s.Tick += p.DT
	prop := p.Proposer
	if prop < 0 {
		prop = s.pickProposer(h)
	}
	b := &sim.Block{Height: h, Time: c.TimeAt(s.Tick), Proposer: prop, Votes: c.DefaultVotes(h, p.Absent), Misbehavior: p.Misb}

	lk := goattypes.LockingRequests{}
	if p.Locking != nil {
		lk = *p.Locking
	}
	if len(lk.Gas) == 0 {
		lk.Gas = []*goattypes.GasRequest{goattypes.NewGasRequest(uint64(h), big.NewInt(p.GasFee))}
	}
	var reqs [][]byte
	reqs = append(reqs, lk.Encode()...)
	if p.Bridge != nil {
		reqs = append(reqs, p.Bridge.Encode()...)
	}
	if p.Relayer != nil {
		reqs = append(reqs, p.Relayer.Encode()...)
	}
	c.Eng.NextRequests = reqs
	bridgeIdle := p.Bridge == nil
	if bridgeIdle {
		cctx, _ := c.ReadCtx().CacheContext()
		if due, err := c.App.BitcoinKeeper.DequeueBitcoinModuleTx(cctx); err != nil || len(due) > 0 {
			bridgeIdle = false
		}
	}

	var pl *goatmodtypes.ExecutionPayload
	if p.UsePrepare || c.Height+1 == c.InitialHeight {
		var mem [][]byte
		pp, err := c.Prepare(b, mem)
		if err != nil {
			return nil, fmt.Errorf("prepare: %w", err)
		}
		b.Txs = pp.Txs
		if len(pp.Txs) == 0 {
			// the application could not build a proposal on a well-behaved engine (not for lack of time: see sim.Chain.Prepare)
			err := fmt.Errorf("PrepareProposal built no proposal at height %d", h)
			s.emit(s.LockW, "halt", Ev{"h": h, "err": err.Error()})
			s.emit(s.RelW, "halt", Ev{"h": h, "err": err.Error()})
			s.emit(s.BridgeW, "halt", Ev{"h": h, "err": err.Error()})
			return nil, &HaltError{Height: h, Err: err}
		}
		if pl, err = s.PayloadOf(pp.Txs[0]); err != nil {
			return nil, err
		}
	} else {
		var err error
		pl, err = c.HonestPayload(prop, uint64(time.Now().Unix()))
		if err != nil {
			return nil, err
		}
		tx, err := c.BlockTx(prop, h, pl, sim.SignOpts{})
		if err != nil {
			return nil, err
		}
		b.Txs = [][]byte{tx}
	}
	for _, t := range p.Txs {
		b.Txs = append(b.Txs, t.Bytes)
	}
	if !p.SkipProcess {
		pr, err := c.Process(b)
		if err != nil {
			return nil, fmt.Errorf("process: %w", err)
		}
		if pr.Status != abci.ResponseProcessProposal_ACCEPT {
			// a block made of the honest execution-block message and transactions that are admissible by the rules (signed by the
			// current relayer proposer, ...) is refused by the application itself: no specification action explains that
			err := fmt.Errorf("honest proposal rejected at height %d", h)
			s.emit(s.LockW, "halt", Ev{"h": h, "err": err.Error()})
			s.emit(s.RelW, "halt", Ev{"h": h, "err": err.Error()})
			s.emit(s.BridgeW, "halt", Ev{"h": h, "err": err.Error()})
			return nil, &HaltError{Height: h, Err: err}
		}
	}
	votesAbs := []Ev{}
	for _, v := range b.Votes {
		votesAbs = append(votesAbs, Ev{"v": v.Val + 1, "power": v.Power, "absent": v.Absent})
	}
	evidAbs := p.EvidAbs
	if evidAbs == nil {
		evidAbs = []Ev{}
	}
	s.emit(s.LockW, "begin", Ev{"h": h, "t": s.Tick, "votes": votesAbs, "evid": evidAbs})
	res, err := c.Finalize(b)
	if err != nil {
		s.emit(s.LockW, "halt", Ev{"h": h, "err": short(err.Error())})
		s.emit(s.RelW, "halt", Ev{"h": h, "err": short(err.Error())})
		return nil, &HaltError{Height: h, Err: err}
	}
	out := &BlockResult{Block: b, Res: res, Payload: pl}
	out.CometErr = c.ApplyUpdates(h, res.ValidatorUpdates)
	if err := c.Commit(); err != nil {
		return nil, err
	}
	out.Engine = c.Eng.TakeLog()

	// locking trace
	if s.LockW != nil {
		nsys := 0
		if len(pl.ExtraData) > 0 {
			nsys = int(pl.ExtraData[0])
		}
		delivered := []project.SysTx{}
		for _, t := range project.DecodeSysTxs(pl.Transactions, nsys) {
			if t.Kind == "reward" || t.Kind == "unlock" {
				delivered = append(delivered, t)
			}
		}
		abs := p.LockAbs
		if abs == nil {
			abs = EmptyLockAbs()
			abs["gas"] = []int64{p.GasFee}
		}
		s.emit(s.LockW, "blockmsg", Ev{"ok": res.TxResults[0].Code == 0, "otherOk": true, "ou": p.LockOU, "r": abs, "delivered": delivered, "log": short(res.TxResults[0].Log)})
		st, err := project.Locking(c)
		if err != nil {
			return nil, err
		}
		ups := [][2]int64{}
		for _, u := range res.ValidatorUpdates {
			pk := u.PubKey.GetSecp256K1()
			id := 0
			for i, v := range c.KR.Vals {
				if bytes.Equal(v.Pub.Key, pk) {
					id = i + 1
				}
			}
			ups = append(ups, [2]int64{int64(id), u.Power})
		}
		s.emit(s.LockW, "end", Ev{"ups": ups, "cometOk": out.CometErr == nil, "cometErr": errStr(out.CometErr), "comet": s.cometView(h + 2), "st": st})
	}
	// bridge trace
	if s.BridgeW != nil {
		nsys := 0
		if len(pl.ExtraData) > 0 {
			nsys = int(pl.ExtraData[0])
		}
		delivered := []project.SysTx{}
		for _, t := range project.DecodeSysTxs(pl.Transactions, nsys) {
			if t.Kind != "reward" && t.Kind != "unlock" {
				delivered = append(delivered, t)
			}
		}
		abs := p.BridgeAbs
		if abs == nil {
			abs = Ev{"withdraws": []Ev{}, "rbf": []Ev{}, "cancel1": []int64{}, "tax": []Ev{}, "conf": []int64{}, "minDep": []int64{}}
		}
		s.emit(s.BridgeW, "blockmsg", Ev{"ok": res.TxResults[0].Code == 0, "otherOk": true, "ou": p.BridgeOU, "r": abs, "delivered": delivered, "log": short(res.TxResults[0].Log)})
		for i, t := range p.Txs {
			r := res.TxResults[i+1]
			if len(t.Parts) > 0 { // several messages in one transaction: all-or-nothing (see the relayer trace below)
				failed := len(t.Parts)
				if r.Code != 0 {
					failed = failedMsgIndex(r.Log)
					if failed < 0 || failed >= len(t.Parts) {
						// refused before any message ran (admission): no specification action explains a transaction of the current
						// proposer being refused inside a block
						s.emit(s.BridgeW, "txrefused", Ev{"log": short(r.Log)})
						continue
					}
				}
				s.emit(s.BridgeW, "txbegin", Ev{"n": len(t.Parts)})
				for j, pt := range t.Parts {
					if j > failed {
						break
					}
					ev, f := pt.BEv, pt.BF
					if ev == "" {
						ev, f = "other", Ev{}
					}
					f["ok"] = j < failed
					f["log"] = ""
					if j == failed {
						f["log"] = short(r.Log)
					}
					s.emit(s.BridgeW, ev, f)
				}
				s.emit(s.BridgeW, "txend", Ev{"ok": r.Code == 0})
				continue
			}
			ev, f := t.BEv, t.BF
			if ev == "" {
				ev, f = "other", Ev{}
			}
			f["ok"] = r.Code == 0
			f["log"] = short(r.Log)
			s.emit(s.BridgeW, ev, f)
		}
		aid := s.bridgeAddrID
		if aid == nil {
			aid = func(a string) string { return a }
		}
		st, err := project.Bridge(c, aid)
		if err != nil {
			return nil, err
		}
		s.emit(s.BridgeW, "end", Ev{"st": st})
	}
	// relayer trace
	if s.RelW != nil {
		s.emit(s.RelW, "begin", Ev{"h": h, "t": s.Tick})
		adds, rms := p.Adds, p.Removes
		if adds == nil {
			adds = []int{}
		}
		if rms == nil {
			rms = []int{}
		}
		s.emit(s.RelW, "el", Ev{"adds": adds, "removes": rms, "ok": res.TxResults[0].Code == 0, "idle": bridgeIdle, "log": short(res.TxResults[0].Log)})
		for i, t := range p.Txs {
			r := res.TxResults[i+1]
			if len(t.Parts) > 0 {
				// all-or-nothing: the messages before the failing one ran (and succeeded), the failing one is reported with its
				// index, the ones after it never ran; on success every message succeeded
				failed := len(t.Parts)
				if r.Code != 0 {
					failed = failedMsgIndex(r.Log)
					if failed < 0 || failed >= len(t.Parts) {
						s.emit(s.RelW, "txrefused", Ev{"log": short(r.Log)})
						continue
					}
				}
				s.emit(s.RelW, "txbegin", Ev{"n": len(t.Parts)})
				for j, pt := range t.Parts {
					if j > failed {
						break
					}
					pt.F["ok"] = j < failed
					pt.F["log"] = ""
					if j == failed {
						pt.F["log"] = short(r.Log)
					}
					if pt.Vid != 0 {
						pt.F["vid"] = pt.Vid
					}
					s.emit(s.RelW, pt.Ev, pt.F)
				}
				s.emit(s.RelW, "txend", Ev{"ok": r.Code == 0})
				if r.Code == 0 {
					for _, pt := range t.Parts {
						if pt.Sig != nil {
							s.rdao = goatcrypto.SHA256Sum(s.rdao, pt.Sig)
							s.rdaoLog = append(append([]int{}, s.rdaoLog...), pt.Vid)
						}
					}
				}
				continue
			}
			t.F["ok"] = r.Code == 0
			t.F["log"] = short(r.Log)
			if t.Vid != 0 {
				t.F["vid"] = t.Vid
			}
			s.emit(s.RelW, t.Ev, t.F)
			if r.Code == 0 && t.Sig != nil {
				s.rdao = goatcrypto.SHA256Sum(s.rdao, t.Sig)
				s.rdaoLog = append(append([]int{}, s.rdaoLog...), t.Vid)
			}
		}
		st, err := project.Relayer(c)
		if err != nil {
			return nil, err
		}
		end := Ev{"t": s.Tick, "idx": s.idxByN(uint64(st.Epoch)), "st": s.relView(st)}
		s.emit(s.RelW, "end", end)
	}
	return out, nil
}

func errStr(e error) string {
	if e == nil {
		return ""
	}
	return short(e.Error())
}

// EmptyLockingRequests is the request list of an execution block in which nothing happened (only the gas report).
func EmptyLockingRequests(h int64) *goattypes.LockingRequests {
	return &goattypes.LockingRequests{Gas: []*goattypes.GasRequest{goattypes.NewGasRequest(uint64(h), big.NewInt(0))}}
}

// EmptyLockAbs is the abstract form of "no locking request but the mandatory gas report".
func EmptyLockAbs() Ev {
	return Ev{"gas": []int64{0}, "grants": []int64{}, "weights": []Ev{}, "thresholds": []Ev{}, "creates": []Ev{},
		"locks": []Ev{}, "unlocks": []Ev{}, "claims": []Ev{}}
}

// cometView is CometBFT's validator set for height h as [power or -1] per validator id.
func (s *Session) cometView(h int64) []int64 {
	out := make([]int64, len(s.C.KR.Vals))
	for i := range out {
		out[i] = -1
	}
	set := s.C.Sets[h]
	if set == nil {
		return out
	}
	for _, v := range set.Validators {
		if id := s.C.KR.ValID(v.Address); id > 0 {
			out[id-1] = v.VotingPower
		}
	}
	return out
}

// PayloadOf extracts the execution payload from an execution-block transaction.
func (s *Session) PayloadOf(txBytes []byte) (*goatmodtypes.ExecutionPayload, error) {
	tx, err := s.C.TxCfg.TxDecoder()(txBytes)
	if err != nil {
		return nil, err
	}
	for _, m := range tx.GetMsgs() {
		if eb, ok := m.(*goatmodtypes.MsgNewEthBlock); ok {
			return eb.Payload, nil
		}
	}
	return nil, fmt.Errorf("no execution-block message")
}

func short(s string) string {
	if len(s) > 80 {
		return s[:80]
	}
	return s
}

// idxByN lists, for every possible voter count n, the election index the accumulator yields for the
// epoch that an election in this block would have started (the epoch in state after EndBlock if an
// election happened, so both "epoch" and "epoch+1" candidates are derivable; we log for the final epoch).
func (s *Session) idxByN(epochAfter uint64) []int {
	var le [8]byte
	binary.LittleEndian.PutUint64(le[:], epochAfter)
	r := new(big.Int).SetBytes(goatcrypto.SHA256Sum(s.rdao, le[:]))
	out := make([]int, len(s.C.KR.Members))
	for n := 1; n <= len(out); n++ {
		out[n-1] = int(new(big.Int).Mod(r, big.NewInt(int64(n))).Int64())
	}
	return out
}

// relView turns the projection into the trace form: the accumulator is replaced by the sequence of
// accepted vote ids when the real value equals the harness' own hash chain over their signatures.
func (s *Session) relView(st *project.RelayerState) Ev {
	rd := []int{-1}
	if st.Randao == hex.EncodeToString(s.rdao) {
		rd = s.rdaoLog
	}
	return Ev{
		"proposer": st.Proposer, "voters": st.Voters, "epoch": st.Epoch, "lastElected": st.LastElected,
		"accepted": st.Accepted, "rec": st.Rec, "onQ": st.OnQ, "offQ": st.OffQ, "seq": st.Seq,
		"randao": rd, "pubkeys": st.Pubkeys, "accounts": st.Accounts, "unknown": st.Unknown,
		"bridge": project.StoreDigest(s.C, "bitcoin"), "tip": st.Tip, "curKey": st.CurKey,
	}
}

// relViewRaw is relView for export/import comparisons: the accumulator is kept as an opaque string.
func (s *Session) relViewRaw(st *project.RelayerState, c *sim.Chain) Ev {
	return Ev{
		"proposer": st.Proposer, "voters": st.Voters, "epoch": st.Epoch, "lastElected": st.LastElected,
		"accepted": st.Accepted, "rec": st.Rec, "onQ": st.OnQ, "offQ": st.OffQ, "seq": st.Seq,
		"randao": []string{st.Randao}, "pubkeys": st.Pubkeys, "accounts": st.Accounts, "unknown": st.Unknown,
		"bridge": project.StoreDigest(c, "bitcoin"), "tip": st.Tip, "curKey": st.CurKey,
	}
}

// StdChain creates a chain with nVoters voters (members 2..n+1; member 1 proposes) and one validator.
type ChainOpts struct {
	ChainID       string
	Seed          int64
	NVals         int
	NMembers      int
	Voters        []int // member indexes (0-based) of the voters; proposer is member index Proposer
	Proposer      int
	Period        int64
	AcceptTimeout int64
	MaxValidators int64
	GenVals       []sim.GenVal
	SchnorrKey    bool
	Mutate        func(g *sim.Genesis)
	ShareBls      [][2]int // {a, b}: member b uses member a's BLS vote key (b must not be a genesis member: genesis demands distinct keys)
}

func NewStdChain(o ChainOpts) (*sim.Chain, *sim.BtcKey, error) {
	kr := sim.NewKeyring(o.Seed, o.NVals, o.NMembers)
	for _, p := range o.ShareBls {
		a, b := kr.Members[p[0]], kr.Members[p[1]]
		b.BlsSK, b.BlsPK, b.BlsPKH = a.BlsSK, a.BlsPK, a.BlsPKH
	}
	c, err := sim.NewChain(o.ChainID, kr, 0, dbm.NewMemDB())
	if err != nil {
		return nil, nil, err
	}
	btc := sim.NewBtcKey(o.Seed, 0, o.SchnorrKey)
	bg := bitcoinDefault()
	bg.Pubkey = btc.Pub
	rg := sim.DefaultRelayer(kr, c.Genesis, o.Proposer, o.Voters, o.Period, o.AcceptTimeout)
	rg.Pubkeys = append(rg.Pubkeys, btc.Pub)
	gv := o.GenVals
	if gv == nil {
		gv = []sim.GenVal{{Val: 0, Power: 10, Locking: sdk.NewCoins(sdk.NewInt64Coin("btc", 10))}}
	}
	mv := o.MaxValidators
	if mv == 0 {
		mv = 4
	}
	lg := sim.DefaultLocking(kr, gv, sim.SmallLockingParams(mv), nil)
	var accs []cryptotypes.PubKey
	for _, v := range gv {
		accs = append(accs, kr.Vals[v.Val].Pub)
	}
	accs = append(accs, kr.Members[o.Proposer].Pub)
	for _, v := range o.Voters {
		accs = append(accs, kr.Members[v].Pub)
	}
	g := sim.Genesis{Relayer: rg, Bitcoin: bg, Locking: lg, Accounts: accs}
	if o.Mutate != nil {
		o.Mutate(&g)
	}
	st, vals, err := c.AppState(g)
	if err != nil {
		return nil, nil, err
	}
	if _, err := c.InitChain(st, vals, 1, nil); err != nil {
		return nil, nil, err
	}
	return c, btc, nil
}

func hash32(parts ...[]byte) []byte {
	h := sha256.New()
	for _, p := range parts {
		h.Write(p)
	}
	return h.Sum(nil)
}

var _ = bytes.Equal

var msgIndexRe = regexp.MustCompile(`message index: (\d+)`)

// failedMsgIndex extracts the index of the failing message from a transaction log ("failed to execute message; message index: 1: ...").
func failedMsgIndex(log string) int {
	m := msgIndexRe.FindStringSubmatch(log)
	if m == nil {
		return -1
	}
	n, _ := strconv.Atoi(m[1])
	return n
}

// MergeTxs turns the given single-message transactions of one signer into ONE transaction carrying all their messages (signed
// with the account sequence `seq`).
func (s *Session) MergeTxs(priv cryptotypes.PrivKey, parts []*RelTx, seq uint64) (*RelTx, error) {
	var msgs []sdk.Msg
	for _, p := range parts {
		tx, err := s.C.TxCfg.TxDecoder()(p.Bytes)
		if err != nil {
			return nil, err
		}
		msgs = append(msgs, tx.GetMsgs()...)
	}
	bz, err := s.C.SignTx(priv, msgs, sim.SignOpts{Seq: &seq})
	if err != nil {
		return nil, err
	}
	return &RelTx{Bytes: bz, Ev: "multi", F: Ev{}, Parts: parts}, nil
}
