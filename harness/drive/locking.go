package drive

import (
	"fmt"
	"math/big"
	"math/rand"
	"time"

	"cosmossdk.io/math"
	abci "github.com/cometbft/cometbft/abci/types"
	cmtproto "github.com/cometbft/cometbft/proto/tendermint/types"
	dbm "github.com/cosmos/cosmos-db"
	cryptotypes "github.com/cosmos/cosmos-sdk/crypto/types"
	sdk "github.com/cosmos/cosmos-sdk/types"
	"github.com/ethereum/go-ethereum/common"
	"github.com/ethereum/go-ethereum/core/types/goattypes"
	lockingtypes "github.com/goatnetwork/goat/x/locking/types"
	"goatverif/project"
	"goatverif/sim"
	"goatverif/tracew"
)

// LockingOpts configure the locking histories (they must agree with the constants of the trace cfg).
type LockingOpts struct {
	PowerReduction int64
	MaxVals        int64
	NVals          int
	Mode           string // "" | "burst" (many unlocks maturing together)
	RelayerPeriod  int64  // relayer electing period in ticks (0: no election inside a history)
	RelayerTimeout int64  // accept-proposer timeout in ticks
}

func tokenDenom(id int) string { return lockingtypes.TokenDenom(project.TokenAddrs[id-1]) }

// NewLockingChain builds a chain for the locking drivers: validator 1 is the bedrock validator.
func NewLockingChain(seed int64, o LockingOpts, r *rand.Rand) (*sim.Chain, error) {
	c, _, err := NewLockingChainKey(seed, o, r)
	return c, err
}

// NewLockingChainKey also returns the relayer Bitcoin key of the genesis.
func NewLockingChainKey(seed int64, o LockingOpts, r *rand.Rand) (*sim.Chain, *sim.BtcKey, error) {
	lockingtypes.PowerReduction = math.NewInt(o.PowerReduction)
	kr := sim.NewKeyring(seed, o.NVals, 8)
	c, err := sim.NewChain("goat-lock", kr, 0, dbm.NewMemDB())
	if err != nil {
		return nil, nil, err
	}
	btc := sim.NewBtcKey(seed, 0, false)
	bg := bitcoinDefault()
	bg.Pubkey = btc.Pub
	period, timeout := int64(100000), int64(100000)
	if o.RelayerPeriod > 0 {
		period, timeout = o.RelayerPeriod, o.RelayerTimeout
	}
	rg := sim.DefaultRelayer(kr, c.Genesis, 0, []int{1}, period, timeout)
	rg.Pubkeys = append(rg.Pubkeys, btc.Pub)
	w1 := uint64(1 + r.Intn(2))
	th1 := int64(r.Intn(3))
	tokens := []*lockingtypes.TokenGenesis{
		{Denom: tokenDenom(1), Token: lockingtypes.Token{Weight: w1, Threshold: math.NewInt(th1)}},
		{Denom: tokenDenom(2), Token: lockingtypes.Token{Weight: uint64(r.Intn(3)), Threshold: math.NewInt(int64(r.Intn(2)))}},
	}
	lock0 := int64(8 + r.Intn(6))
	gv := []sim.GenVal{{Val: 0, Power: uint64(int64(w1) * lock0 / o.PowerReduction), Locking: sdk.NewCoins(sdk.NewInt64Coin(tokenDenom(1), lock0))}}
	params := sim.SmallLockingParams(o.MaxVals)
	lg := sim.DefaultLocking(kr, gv, params, tokens)
	lg.RewardPool.Remain = math.NewInt(int64(r.Intn(30)))
	accs := []cryptotypes.PubKey{kr.Vals[0].Pub, kr.Vals[o.NVals-1].Pub, kr.Members[0].Pub, kr.Members[1].Pub}
	st, vals, err := c.AppState(sim.Genesis{Relayer: rg, Bitcoin: bg, Locking: lg, Accounts: accs})
	if err != nil {
		return nil, nil, err
	}
	cp := sim.DefaultConsensusParams()
	cp.Evidence = &cmtproto.EvidenceParams{MaxAgeNumBlocks: 3, MaxAgeDuration: sim.Ticks(3), MaxBytes: 1048576}
	if _, err := c.InitChain(st, vals, 1, cp); err != nil {
		return nil, nil, err
	}
	return c, btc, nil
}

func (s *Session) EmitLockInit() error {
	st, err := project.Locking(s.C)
	if err != nil {
		return err
	}
	s.emit(s.LockW, "init", Ev{"t": s.Tick, "h": s.C.Height, "st": st, "comet": s.cometView(s.C.Height + 1)})
	return nil
}

// LockingRandom drives n random histories of the locking module.
func LockingRandom(outFile string, seed int64, n, depth int, o LockingOpts) (int, error) {
	w, err := tracew.Create(outFile)
	if err != nil {
		return 0, err
	}
	defer w.Close()
	for run := 1; run <= n; run++ {
		if err := lockingHistory(w, seed*100003+int64(run), run, depth, o); err != nil {
			if _, halted := err.(*HaltError); halted {
				continue // logged as a `halt` event; the validator decides
			}
			return w.N, fmt.Errorf("run %d: %w", run, err)
		}
	}
	return w.N, nil
}

func lockingHistory(w *tracew.Writer, seed int64, run, depth int, o LockingOpts) error {
	r := rand.New(rand.NewSource(seed))
	c, err := NewLockingChain(seed%5, o, r)
	if err != nil {
		return err
	}
	defer c.Close()
	s := NewSession(c, seed, run)
	s.LockW = w
	if err := s.EmitLockInit(); err != nil {
		return err
	}
	g := &lockGen{s: s, r: r, nextID: 1, nv: o.NVals, mode: o.Mode}
	for b := 0; b < depth; b++ {
		g.exodus = o.Mode == "exodus" && b == depth-1
		plan := g.plan()
		if _, err := s.RunBlock(plan); err != nil {
			return err
		}
	}
	return nil
}

type lockGen struct {
	s                       *Session
	r                       *rand.Rand
	nextID                  int
	nv                      int
	mode                    string
	clean                   bool         // only requests the modules accept (the block message must then succeed)
	exodus                  bool         // this block: every validator, the bedrock one included, withdraws everything (the whole set leaves at once)
	afterBurst              int          // burst mode: 2 = the next block adds a later maturity instant, 1 = the one after jumps the clock over both
	lastAbsent              map[int]bool // who was absent in the previous block
	fracStage, fracV, fracT int          // the "power from crumbs" scenario: stage, validator, token
	forceExit               bool         // this block: a clean exit (everything unlocked, claim) of one validator for sure
	boost                   bool         // this block: nothing but creations and generous locks, so that several validators are active afterwards
}

func (g *lockGen) id() int { g.nextID++; return g.nextID }

func rndAddr(r *rand.Rand) common.Address {
	var a common.Address
	r.Read(a[:])
	return a
}

// plan chooses the inputs of the next block.
func (g *lockGen) plan() *BlockPlan {
	s, r, c := g.s, g.r, g.s.C
	h := c.Height + 1
	st, _ := project.Locking(c)
	plan := &BlockPlan{DT: []int64{0, 1, 1, 1, 2, 3}[r.Intn(6)], Proposer: -1, Absent: map[int]bool{}}
	var existing []int
	for i, v := range st.Val {
		if v.Exists {
			existing = append(existing, i)
		}
	}
	// proposer: any member of CometBFT's set for this height
	if set := c.Sets[h]; set != nil && len(set.Validators) > 0 {
		plan.Proposer = c.KR.ValID(set.Validators[r.Intn(len(set.Validators))].Address) - 1
	}
	if h == c.InitialHeight {
		plan.Proposer = 0
	}
	// absent voters (never the bedrock validator 1)
	if set := c.Sets[h-1]; set != nil {
		for _, v := range set.Validators {
			// absences come in streaks (a node that is down stays down for a while): 7 in 10 after an absence, 3 in 10 otherwise
			if id := c.KR.ValID(v.Address); id > 1 && ((g.lastAbsent[id-1] && r.Intn(10) < 7) || (!g.lastAbsent[id-1] && r.Intn(10) < 3)) {
				plan.Absent[id-1] = true
			}
		}
	}
	g.lastAbsent = plan.Absent
	now := s.Tick + plan.DT
	// evidence
	for k := []int{0, 0, 0, 0, 0, 0, 0, 1, 1, 2, 3}[r.Intn(11)]; k > 0; k-- { // often none, sometimes several pieces in one block (fresh and expired ones mixed)
		if len(existing) > 1 {
			vi := existing[1+r.Intn(len(existing)-1)]
			typ := []abci.MisbehaviorType{abci.MisbehaviorType_DUPLICATE_VOTE, abci.MisbehaviorType_LIGHT_CLIENT_ATTACK, abci.MisbehaviorType_UNKNOWN}[r.Intn(3)]
			ageB, ageT := int64(r.Intn(6)), int64(r.Intn(6))
			eh, et := h-ageB, now-ageT
			if eh < 1 {
				eh = 1
			}
			if et < 0 {
				et = 0
			}
			plan.Misb = append(plan.Misb, abci.Misbehavior{Type: typ, Validator: abci.Validator{Address: c.KR.Vals[vi].Addr, Power: 1},
				Height: eh, Time: c.TimeAt(et), TotalVotingPower: 10})
			plan.EvidAbs = append(plan.EvidAbs, Ev{"v": vi + 1, "h": eh, "t": et, "known": typ != abci.MisbehaviorType_UNKNOWN})
		}
	}
	// locking requests
	lk := &goattypes.LockingRequests{}
	abs := EmptyLockAbs()
	gas := int64(r.Intn(10))
	if r.Intn(3) == 0 {
		gas = 0 // blocks without gas revenue are common (and a boundary of the reward-pool update)
	}
	lk.Gas = []*goattypes.GasRequest{goattypes.NewGasRequest(uint64(h), big.NewInt(gas))}
	abs["gas"] = []int64{gas}
	rare := func(k int) bool { return r.Intn(k) == 0 }
	dirty := func(k int) bool { return !g.clean && r.Intn(k) == 0 }
	if rare(6) || (h >= 20 && rare(3)) { // late grants too: after the halving schedule has decayed to nothing
		amt := int64(r.Intn(25))
		lk.Grants = append(lk.Grants, &goattypes.GrantRequest{Amount: big.NewInt(amt)})
		abs["grants"] = []int64{amt}
	}
	var weights, thresholds, creates, locks, unlocks, claims []Ev
	if rare(5) {
		for k := 1 + r.Intn(2); k > 0; k-- {
			t := 1 + r.Intn(4)
			if rare(2) { // prefer a token that carries a threshold (its record keeps the threshold through a re-weight)
				for ti := range st.Tokens {
					if st.Thr[ti] > 0 && rare(2) {
						t = ti + 1
					}
				}
			}
			wgt := int64(r.Intn(4))
			if t == 1 && wgt == 0 {
				wgt = 1 // the bedrock validator's token keeps a weight
			}
			lk.UpdateWeights = append(lk.UpdateWeights, &goattypes.UpdateTokenWeightRequest{Token: project.TokenAddrs[t-1], Weight: uint64(wgt)})
			weights = append(weights, Ev{"t": t, "w": wgt})
		}
	}
	if rare(2) && len(weights) == 0 {
		// a jailed validator whose jail time is about to end sees the weights of everything it holds drop to zero (never the bedrock
		// token's): what it locks next may meet every threshold and still be worth no power at all
		for _, v := range st.Val {
			if !v.Exists || v.Status != "Downgrade" || now+2 < v.JailedUntil || v.Locking[0] > 0 || len(weights) > 0 {
				continue
			}
			for ti := range st.Tokens {
				if ti > 0 && v.Locking[ti] > 0 && st.Tokens[ti].Exists && st.Tokens[ti].Weight > 0 {
					lk.UpdateWeights = append(lk.UpdateWeights, &goattypes.UpdateTokenWeightRequest{Token: project.TokenAddrs[ti], Weight: 0})
					weights = append(weights, Ev{"t": ti + 1, "w": int64(0)})
				}
			}
		}
	}
	if rare(4) && len(weights) == 0 { // a weight change of a token that a jailed / exited / tombstoned validator still holds (it must not regain power)
		for _, v := range st.Val {
			if !v.Exists || v.Status == "Active" || v.Status == "Pending" {
				continue
			}
			for ti := range st.Tokens {
				if v.Locking[ti] > 0 && st.Tokens[ti].Exists && len(weights) == 0 {
					wgt := st.Tokens[ti].Weight + int64(1+r.Intn(2))
					lk.UpdateWeights = append(lk.UpdateWeights, &goattypes.UpdateTokenWeightRequest{Token: project.TokenAddrs[ti], Weight: uint64(wgt)})
					weights = append(weights, Ev{"t": ti + 1, "w": wgt})
				}
			}
		}
	}
	if rare(2) && len(thresholds) == 0 { // a threshold raised just above what a jailed validator holds, in a batch that ENDS with an
		// update that changes nothing (the jailed validator must stay out until it meets the raised threshold)
		for _, v := range st.Val {
			if !v.Exists || v.Status != "Downgrade" || len(thresholds) > 0 {
				continue
			}
			if rare(2) { // ... or a threshold on a token the jailed validator holds NOTHING of (no top-up of what it holds may re-admit it)
				for ti := range st.Tokens {
					if v.Locking[ti] == 0 && st.Tokens[ti].Exists && len(thresholds) == 0 {
						th := int64(1 + r.Intn(2))
						lk.UpdateThresholds = append(lk.UpdateThresholds, &goattypes.UpdateTokenThresholdRequest{Token: project.TokenAddrs[ti], Threshold: big.NewInt(th)})
						thresholds = append(thresholds, Ev{"t": ti + 1, "th": th})
					}
				}
				continue
			}
			for ti := range st.Tokens {
				if v.Locking[ti] > 0 && st.Tokens[ti].Exists && len(thresholds) == 0 {
					th := v.Locking[ti] + int64(1+r.Intn(2))
					tj := (ti + 1) % 2 // tokens 1 and 2 always exist
					if tj == ti {
						tj = 1 - ti
					}
					lk.UpdateThresholds = append(lk.UpdateThresholds,
						&goattypes.UpdateTokenThresholdRequest{Token: project.TokenAddrs[ti], Threshold: big.NewInt(th)},
						&goattypes.UpdateTokenThresholdRequest{Token: project.TokenAddrs[tj], Threshold: big.NewInt(st.Thr[tj])})
					thresholds = append(thresholds, Ev{"t": ti + 1, "th": th}, Ev{"t": tj + 1, "th": st.Thr[tj]})
				}
			}
		}
	}
	if rare(7) && len(thresholds) == 0 {
		t := 1 + r.Intn(4)
		if !st.Tokens[t-1].Exists && !dirty(4) {
			t = 1 + r.Intn(2)
		}
		th := int64(r.Intn(4))
		lk.UpdateThresholds = append(lk.UpdateThresholds, &goattypes.UpdateTokenThresholdRequest{Token: project.TokenAddrs[t-1], Threshold: big.NewInt(th)})
		thresholds = append(thresholds, Ev{"t": t, "th": th})
		for rare(2) && len(thresholds) < 3 { // several threshold updates in one batch, also ones that change nothing (in any position)
			t2 := 1 + r.Intn(2)
			for ti := range st.Tokens {
				if st.Tokens[ti].Exists && rare(2) {
					t2 = ti + 1
				}
			}
			th2 := int64(r.Intn(4))
			if rare(2) {
				th2 = st.Thr[t2-1] // the value the token already has
			}
			lk.UpdateThresholds = append(lk.UpdateThresholds, &goattypes.UpdateTokenThresholdRequest{Token: project.TokenAddrs[t2-1], Threshold: big.NewInt(th2)})
			thresholds = append(thresholds, Ev{"t": t2, "th": th2})
		}
	}
	if rare(3) || len(existing) < 3 {
		vi := r.Intn(g.nv)
		v := c.KR.Vals[vi]
		req := &goattypes.CreateRequest{Validator: v.EthAddr(), Pubkey: v.Uncompressed()}
		ok := true
		if dirty(12) {
			req.Validator = rndAddr(r)
			ok = false
		}
		lk.Creates = append(lk.Creates, req)
		creates = append(creates, Ev{"v": vi + 1, "addrOk": ok})
	}
	pickVal := func() (int, common.Address) {
		if dirty(40) || (g.mode == "multifail" && rare(3)) {
			return 0, rndAddr(r)
		}
		vi := r.Intn(g.nv)
		if !dirty(12) {
			vi = existing[r.Intn(len(existing))]
		}
		return vi + 1, c.KR.Vals[vi].EthAddr()
	}
	pickTok := func() int {
		if dirty(20) {
			return 1 + r.Intn(4)
		}
		if g.clean {
			for {
				if t := 1 + r.Intn(4); st.Tokens[t-1].Exists {
					return t
				}
			}
		}
		return 1 + r.Intn(3)
	}
	if !rare(3) {
		nl := r.Intn(4)
		if g.mode == "multifail" {
			nl = 3 + r.Intn(4)
		}
		for k := nl; k > 0; k-- {
			vid, addr := pickVal()
			t := pickTok()
			amt := int64(r.Intn(7))
			if g.mode == "burst" {
				amt += int64(r.Intn(8)) // bursts need holdings to draw from
			}
			lk.Locks = append(lk.Locks, &goattypes.LockRequest{Validator: addr, Token: project.TokenAddrs[t-1], Amount: big.NewInt(amt)})
			locks = append(locks, Ev{"v": vid, "t": t, "amt": amt})
		}
	}
	// power from crumbs: a validator that holds nothing yet receives two single-unit locks of a token without threshold in two
	// different blocks (each is worth weight/PowerReduction, rounded DOWN on its own), then takes both units out in one unlock
	// (worth the power of two units at once, possibly more than the validator ever got): its power ends at zero, never below
	if !g.exodus && !g.boost {
		switch g.fracStage {
		case 0:
			if rare(6) {
				for vi, v := range st.Val {
					empty := v.Exists && vi > 0 && (v.Status == "Pending" || v.Status == "Active") && v.Power == 0
					for ti := range st.Tokens {
						empty = empty && v.Locking[ti] == 0
					}
					if !empty {
						continue
					}
					for ti := range st.Tokens {
						if st.Tokens[ti].Exists && st.Thr[ti] == 0 && st.Tokens[ti].Weight > 0 && g.fracStage == 0 {
							g.fracV, g.fracT, g.fracStage = vi, ti, 1
						}
					}
				}
			}
		}
		if g.fracStage == 1 || g.fracStage == 2 {
			lk.Locks = append(lk.Locks, &goattypes.LockRequest{Validator: c.KR.Vals[g.fracV].EthAddr(), Token: project.TokenAddrs[g.fracT], Amount: big.NewInt(1)})
			locks = append(locks, Ev{"v": g.fracV + 1, "t": g.fracT + 1, "amt": int64(1)})
			g.fracStage++
		} else if g.fracStage == 3 {
			if v := st.Val[g.fracV]; v.Exists && v.Locking[g.fracT] >= 2 {
				id := g.id()
				lk.Unlocks = append(lk.Unlocks, &goattypes.UnlockRequest{Id: uint64(id), Validator: c.KR.Vals[g.fracV].EthAddr(), Recipient: rndAddr(r),
					Token: project.TokenAddrs[g.fracT], Amount: big.NewInt(2)})
				unlocks = append(unlocks, Ev{"id": id, "v": g.fracV + 1, "t": g.fracT + 1, "amt": int64(2)})
			}
			g.fracStage = 0
		}
	}
	if !rare(3) && !g.exodus {
		// boundary-seeking locks for jailed (downgraded) validators whose jail time is over or about to be: either a top-up of a token
		// they already hold (which must NOT re-admit them while another listed threshold is unmet, also one they hold nothing of),
		// or exactly what is missing for every threshold (which must)
		for vi, v := range st.Val {
			if !v.Exists || v.Status != "Downgrade" || now+1 < v.JailedUntil || rare(2) {
				continue
			}
			var held []int
			for ti := range st.Tokens {
				if v.Locking[ti] > 0 && st.Tokens[ti].Exists {
					held = append(held, ti)
				}
			}
			lacksAll := false // holds nothing at all of some token that has a threshold
			for ti := range st.Tokens {
				if st.Tokens[ti].Exists && st.Thr[ti] > 0 && v.Locking[ti] == 0 {
					lacksAll = true
				}
			}
			if (rare(2) || (lacksAll && rare(2))) && len(held) > 0 {
				ti := held[r.Intn(len(held))]
				amt := int64(1 + r.Intn(3))
				lk.Locks = append(lk.Locks, &goattypes.LockRequest{Validator: c.KR.Vals[vi].EthAddr(), Token: project.TokenAddrs[ti], Amount: big.NewInt(amt)})
				locks = append(locks, Ev{"v": vi + 1, "t": ti + 1, "amt": amt})
			} else {
				for ti := range st.Tokens {
					if miss := st.Thr[ti] - v.Locking[ti]; miss > 0 && st.Tokens[ti].Exists && !rare(6) {
						lk.Locks = append(lk.Locks, &goattypes.LockRequest{Validator: c.KR.Vals[vi].EthAddr(), Token: project.TokenAddrs[ti], Amount: big.NewInt(miss)})
						locks = append(locks, Ev{"v": vi + 1, "t": ti + 1, "amt": miss})
					}
				}
			}
		}
	}
	nUnl := 0
	if rare(3) {
		nUnl = 1 + r.Intn(2)
	}
	if g.mode == "burst" && rare(4) {
		nUnl = 12 + r.Intn(14)
		plan.DT = int64(r.Intn(2))
	}
	if !rare(4) { // a jailed (downgraded) validator takes out a PART of what it holds and stays at or above every threshold: it stays jailed,
		// powerless and unranked, whatever happens to the token's weight afterwards
		for vi, v := range st.Val {
			if !v.Exists || v.Status != "Downgrade" || vi == 0 || nUnl > 20 {
				continue
			}
			for ti := range st.Tokens {
				if spare := v.Locking[ti] - st.Thr[ti]; st.Tokens[ti].Exists && spare >= 1 && v.Locking[ti] >= 2 && rare(2) {
					amt := 1 + int64(r.Intn(int(spare)))
					if amt >= v.Locking[ti] {
						amt = v.Locking[ti] - 1
					}
					id := g.id()
					lk.Unlocks = append(lk.Unlocks, &goattypes.UnlockRequest{Id: uint64(id), Validator: c.KR.Vals[vi].EthAddr(), Recipient: rndAddr(r),
						Token: project.TokenAddrs[ti], Amount: big.NewInt(amt)})
					unlocks = append(unlocks, Ev{"id": id, "v": vi + 1, "t": ti + 1, "amt": amt})
					break
				}
			}
		}
	}
	if rare(3) { // boundary-seeking unlock: take a validator's holding of a token with a threshold to just below / exactly at it
		var cands [][3]int64
		for vi, v := range st.Val {
			if vi == 0 || !v.Exists {
				continue
			}
			for ti := range st.Tokens {
				if th := st.Thr[ti]; th > 0 && v.Locking[ti] >= th {
					cands = append(cands, [3]int64{int64(vi), int64(ti), v.Locking[ti] - th})
				}
			}
		}
		if len(cands) > 0 {
			cnd := cands[r.Intn(len(cands))]
			amt := cnd[2] + int64(r.Intn(2)) // exactly down to the threshold, or one unit below it
			id := g.id()
			lk.Unlocks = append(lk.Unlocks, &goattypes.UnlockRequest{Id: uint64(id), Validator: c.KR.Vals[cnd[0]].EthAddr(), Recipient: rndAddr(r),
				Token: project.TokenAddrs[cnd[1]], Amount: big.NewInt(amt)})
			unlocks = append(unlocks, Ev{"id": id, "v": int(cnd[0]) + 1, "t": int(cnd[1]) + 1, "amt": amt})
		}
	}
	var exoReq []*goattypes.UnlockRequest
	var exoAbs []Ev
	if g.exodus {
		for vi, v := range st.Val {
			if !v.Exists {
				continue
			}
			for ti := range st.Tokens {
				if v.Locking[ti] > 0 {
					id := g.id()
					exoReq = append(exoReq, &goattypes.UnlockRequest{Id: uint64(id), Validator: c.KR.Vals[vi].EthAddr(), Recipient: rndAddr(r),
						Token: project.TokenAddrs[ti], Amount: big.NewInt(v.Locking[ti])})
					exoAbs = append(exoAbs, Ev{"id": id, "v": vi + 1, "t": ti + 1, "amt": v.Locking[ti]})
				}
			}
		}
	}
	followUp := false
	switch g.afterBurst {
	case 2: // the block after a burst: a later maturity instant, close behind the burst's
		plan.DT, nUnl, followUp, g.afterBurst = 1, 1+r.Intn(2), true, 1
	case 1: // then a jump of the clock over BOTH instants: they mature in one sweep (16+ entries ahead of the later ones)
		plan.DT, g.afterBurst = int64(2+r.Intn(2)), 0
	}
	if g.mode == "burst" && (nUnl >= 9 || followUp) {
		// many small unlocks that really produce queue entries: one unit each, spread over the holdings that exist
		type hold struct{ vi, ti int }
		left := map[hold]int64{}
		var keys []hold
		for vi, v := range st.Val {
			if vi == 0 || !v.Exists {
				continue
			}
			for ti := range st.Tokens {
				if v.Locking[ti] > 0 {
					left[hold{vi, ti}] = v.Locking[ti]
					keys = append(keys, hold{vi, ti})
				}
			}
		}
		for k := 0; k < nUnl && len(keys) > 0; k++ {
			i := r.Intn(len(keys))
			hk := keys[i]
			id := g.id()
			lk.Unlocks = append(lk.Unlocks, &goattypes.UnlockRequest{Id: uint64(id), Validator: c.KR.Vals[hk.vi].EthAddr(), Recipient: rndAddr(r),
				Token: project.TokenAddrs[hk.ti], Amount: big.NewInt(1)})
			unlocks = append(unlocks, Ev{"id": id, "v": hk.vi + 1, "t": hk.ti + 1, "amt": int64(1)})
			if left[hk]--; left[hk] == 0 {
				keys = append(keys[:i], keys[i+1:]...)
			}
		}
		if !followUp && len(lk.Unlocks) >= 16 && !g.exodus {
			g.afterBurst = 2
		}
		nUnl = 0
	}
	if nUnl > 0 {
		for k := nUnl; k > 0; k-- {
			vid, addr := pickVal()
			if vid == 1 {
				continue // the bedrock validator never unlocks
			}
			t := pickTok()
			amt := int64(r.Intn(8))
			id := g.id()
			lk.Unlocks = append(lk.Unlocks, &goattypes.UnlockRequest{Id: uint64(id), Validator: addr, Recipient: rndAddr(r), Token: project.TokenAddrs[t-1], Amount: big.NewInt(amt)})
			unlocks = append(unlocks, Ev{"id": id, "v": vid, "t": t, "amt": amt})
		}
	}
	if rare(4) {
		vid, addr := pickVal()
		for k := 1 + r.Intn(3); k > 0; k-- { // several claims in one block, often for the same validator (paid once, then nothing)
			if rare(3) {
				vid, addr = pickVal()
			}
			id := g.id()
			lk.Claims = append(lk.Claims, &goattypes.ClaimRequest{Id: uint64(id), Validator: addr, Recipient: rndAddr(r)})
			claims = append(claims, Ev{"id": id, "v": vid})
		}
	}
	if (rare(8) || g.forceExit) && !g.exodus && !g.boost {
		// a clean exit: one validator (never the bedrock one) withdraws ALL it holds of every token and claims in the same block. It
		// stays in CometBFT's set for two more blocks and keeps earning for its votes: a validator with nothing locked, nothing
		// claimed-away, but fresh (late in a history: gas-only) rewards
		for vi, v := range st.Val {
			if vi == 0 || !v.Exists || (v.Status != "Active" && v.Status != "Pending") || (rare(2) && !g.forceExit) {
				continue
			}
			for ti := range st.Tokens {
				if v.Locking[ti] > 0 {
					id := g.id()
					lk.Unlocks = append(lk.Unlocks, &goattypes.UnlockRequest{Id: uint64(id), Validator: c.KR.Vals[vi].EthAddr(), Recipient: rndAddr(r),
						Token: project.TokenAddrs[ti], Amount: big.NewInt(v.Locking[ti])})
					unlocks = append(unlocks, Ev{"id": id, "v": vi + 1, "t": ti + 1, "amt": v.Locking[ti]})
				}
			}
			id := g.id()
			lk.Claims = append(lk.Claims, &goattypes.ClaimRequest{Id: uint64(id), Validator: c.KR.Vals[vi].EthAddr(), Recipient: rndAddr(r)})
			claims = append(claims, Ev{"id": id, "v": vi + 1})
			break
		}
	}
	if g.mode == "burst" && rare(6) && len(existing) > 0 {
		// a burst of reward claims beyond the per-block delivery cap (16): the backlog is paid out over the following blocks,
		// each claim exactly once, in order
		for k := 17 + r.Intn(12); k > 0; k-- {
			vi := existing[r.Intn(len(existing))]
			id := g.id()
			lk.Claims = append(lk.Claims, &goattypes.ClaimRequest{Id: uint64(id), Validator: c.KR.Vals[vi].EthAddr(), Recipient: rndAddr(r)})
			claims = append(claims, Ev{"id": id, "v": vi + 1})
		}
	}
	if g.boost && !g.exodus {
		lk.UpdateWeights, lk.UpdateThresholds, lk.Creates, lk.Locks, lk.Claims, lk.Grants, lk.Unlocks = nil, nil, nil, nil, nil, nil, nil
		weights, thresholds, creates, locks, claims, unlocks = nil, nil, nil, nil, nil, nil
		abs["grants"] = []int64{}
		for vi := 1; vi < g.nv && vi < 4; vi++ {
			if !st.Val[vi].Exists {
				v := c.KR.Vals[vi]
				lk.Creates = append(lk.Creates, &goattypes.CreateRequest{Validator: v.EthAddr(), Pubkey: v.Uncompressed()})
				creates = append(creates, Ev{"v": vi + 1, "addrOk": true})
			}
			for ti, tk := range st.Tokens {
				if tk.Exists {
					lk.Locks = append(lk.Locks, &goattypes.LockRequest{Validator: c.KR.Vals[vi].EthAddr(), Token: project.TokenAddrs[ti], Amount: big.NewInt(int64(5 + vi))})
					locks = append(locks, Ev{"v": vi + 1, "t": ti + 1, "amt": int64(5 + vi)})
				}
			}
		}
	}
	if g.exodus { // nothing else in this block: the batch must not fail for another reason
		lk.UpdateWeights, lk.UpdateThresholds, lk.Creates, lk.Locks, lk.Claims, lk.Grants = nil, nil, nil, nil, nil, nil
		weights, thresholds, creates, locks, claims = nil, nil, nil, nil, nil
		abs["grants"] = []int64{}
		lk.Unlocks, unlocks = exoReq, exoAbs
	}
	set := func(k string, v []Ev) {
		if v != nil {
			abs[k] = v
		}
	}
	set("weights", weights)
	set("thresholds", thresholds)
	set("creates", creates)
	set("locks", locks)
	set("unlocks", unlocks)
	set("claims", claims)
	plan.Locking = lk
	plan.LockAbs = abs
	return plan
}

var _ = time.Now
