package drive

import (
	"fmt"
	"math/big"
	"math/rand"
	"strings"

	"cosmossdk.io/math"
	dbm "github.com/cosmos/cosmos-db"
	cryptotypes "github.com/cosmos/cosmos-sdk/crypto/types"
	sdk "github.com/cosmos/cosmos-sdk/types"
	"github.com/ethereum/go-ethereum/core/types/goattypes"
	lockingtypes "github.com/goatnetwork/goat/x/locking/types"
	"goatverif/project"
	"goatverif/sim"
	"goatverif/tracew"
)

// RewardBig (large-scale regime of C12 / C13): real magnitudes (power reduction 1e18, 18-digit amounts, pools around 1e18..1e20,
// weights up to 2^62). The values do not fit the specification's integers, so the trace carries DERIVED small quantities computed
// with math/big from the real state: per block the dust each pool kept (pool before + inflow - sum of shares handed out), the signs
// of pools and accruals, the conservation imbalance, and CometBFT's verdict on the validator updates.
func RewardBig(outFile string, seed int64, n, depth int) (int, error) {
	w, err := tracew.Create(outFile)
	if err != nil {
		return 0, err
	}
	defer w.Close()
	for run := 1; run <= n; run++ {
		if err := rewardBigHistory(w, seed*100003+int64(run), run, depth); err != nil {
			if _, halted := err.(*HaltError); halted {
				continue
			}
			return w.N, fmt.Errorf("run %d: %w", run, err)
		}
	}
	return w.N, nil
}

var e18 = new(big.Int).Exp(big.NewInt(10), big.NewInt(18), nil)

func bigPool(c *sim.Chain) (goat, gas, remain, accrued *big.Int, nvals int) {
	ctx := c.ReadCtx()
	k := c.App.LockingKeeper
	p, _ := k.RewardPool.Get(ctx)
	accrued = new(big.Int)
	_ = k.Validators.Walk(ctx, nil, func(_ sdk.ConsAddress, v lockingtypes.Validator) (bool, error) {
		accrued.Add(accrued, v.Reward.BigInt())
		accrued.Add(accrued, v.GasReward.BigInt())
		nvals++
		return false, nil
	})
	return p.Goat.BigInt(), p.Gas.BigInt(), p.Remain.BigInt(), accrued, nvals
}

func rewardBigHistory(w *tracew.Writer, seed int64, run, depth int) error {
	r := rand.New(rand.NewSource(seed))
	lockingtypes.PowerReduction = math.NewIntFromBigInt(e18)
	kr := sim.NewKeyring(seed%5, 4, 8)
	c, err := sim.NewChain("goat-big", kr, 0, dbm.NewMemDB())
	if err != nil {
		return err
	}
	defer c.Close()
	btc := sim.NewBtcKey(seed, 0, false)
	bg := bitcoinDefault()
	bg.Pubkey = btc.Pub
	rg := sim.DefaultRelayer(kr, c.Genesis, 0, []int{1}, 100000, 100000)
	rg.Pubkeys = append(rg.Pubkeys, btc.Pub)
	// powers such as (5,5,2), (1,1,1), (7,3,1): ratios that round up at 18 digits
	sets := [][]int64{{5, 5, 2}, {1, 1, 1}, {7, 3, 1}, {2, 3, 6}, {1, 2, 4}, {6, 7, 1}}
	pw := sets[r.Intn(len(sets))]
	weight := uint64(1)
	extreme := r.Intn(4) == 0
	if extreme {
		weight = 1 << 61 // extreme token configuration: voting power near 2^63
	}
	tokens := []*lockingtypes.TokenGenesis{{Denom: tokenDenom(1), Token: lockingtypes.Token{Weight: weight, Threshold: math.ZeroInt()}}}
	var gv []sim.GenVal
	var accs []cryptotypes.PubKey
	for i, p := range pw {
		amt := new(big.Int).Mul(big.NewInt(p), e18)
		power := new(big.Int).Mul(big.NewInt(p), new(big.Int).SetUint64(weight))
		if !power.IsUint64() {
			power = new(big.Int).SetUint64(1 << 62)
		}
		gv = append(gv, sim.GenVal{Val: i, Power: power.Uint64(), Locking: sdk.NewCoins(sdk.NewCoin(tokenDenom(1), math.NewIntFromBigInt(amt)))})
		accs = append(accs, kr.Vals[i].Pub)
	}
	if extreme { // keep the genesis itself inside CometBFT's limits; the histories then push it
		for i := range gv {
			gv[i].Power = uint64(pw[i])
			gv[i].Locking = sdk.NewCoins(sdk.NewCoin(tokenDenom(1), math.NewInt(pw[i])))
		}
		tokens[0].Token.Weight = 1
		lockingtypes.PowerReduction = math.NewInt(1)
	}
	params := sim.SmallLockingParams(4)
	params.InitialBlockReward = 2378234400000000000
	params.HalvingInterval = 7
	lg := sim.DefaultLocking(kr, gv, params, tokens)
	lg.RewardPool.Remain = math.NewIntFromBigInt(new(big.Int).Mul(big.NewInt(int64(3+r.Intn(40))), e18))
	accs = append(accs, kr.Members[0].Pub, kr.Members[1].Pub)
	st, vals, err := c.AppState(sim.Genesis{Relayer: rg, Bitcoin: bg, Locking: lg, Accounts: accs})
	if err != nil {
		return err
	}
	if _, err := c.InitChain(st, vals, 1, nil); err != nil {
		return err
	}
	s := NewSession(c, seed, run)
	w.Emit(Ev{"ev": "init", "run": run, "extreme": extreme})
	granted := new(big.Int).Set(lg.RewardPool.Remain.BigInt())
	fees, claimed := new(big.Int), new(big.Int)
	nextID := uint64(1)
	for b := 0; b < depth; b++ {
		g0, s0, r0, a0, _ := bigPool(c)
		plan := &BlockPlan{DT: 1, Proposer: -1}
		lk := &goattypes.LockingRequests{}
		// gas fee: 1e18-scale with small offsets (the pool times a rounded-up ratio may exceed the pool by one unit)
		fee := new(big.Int).Mul(big.NewInt(int64(r.Intn(5))), e18)
		fee.Add(fee, big.NewInt(int64(r.Intn(9))))
		if r.Intn(5) == 0 {
			fee = big.NewInt(int64(r.Intn(3)))
		}
		lk.Gas = []*goattypes.GasRequest{goattypes.NewGasRequest(uint64(c.Height+1), fee)}
		if r.Intn(6) == 0 {
			amt := new(big.Int).Mul(big.NewInt(int64(1+r.Intn(5))), e18)
			lk.Grants = append(lk.Grants, &goattypes.GrantRequest{Amount: amt})
			granted.Add(granted, amt)
		}
		var claimIDs []uint64
		if r.Intn(4) == 0 {
			vi := r.Intn(len(pw))
			lk.Claims = append(lk.Claims, &goattypes.ClaimRequest{Id: nextID, Validator: kr.Vals[vi].EthAddr(), Recipient: rndAddr(r)})
			claimIDs = append(claimIDs, nextID)
			nextID++
		}
		if extreme && r.Intn(3) == 0 { // push voting power towards the limits
			vi := r.Intn(len(pw))
			amt := new(big.Int).Lsh(big.NewInt(1), uint(58+r.Intn(5)))
			lk.Locks = append(lk.Locks, &goattypes.LockRequest{Validator: kr.Vals[vi].EthAddr(), Token: project.TokenAddrs[0], Amount: amt})
		}
		plan.Locking = lk
		res, err := s.RunBlock(plan)
		if err != nil {
			if he, ok := err.(*HaltError); ok {
				w.Emit(Ev{"ev": "halt", "run": run, "h": he.Height, "err": short(he.Err.Error())})
			}
			return err
		}
		msgOk := res.Res.TxResults[0].Code == 0
		if msgOk {
			if fee.Sign() > 0 {
				fees.Add(fees, fee)
			}
		} else if len(lk.Grants) > 0 {
			granted.Sub(granted, lk.Grants[0].Amount)
		}
		g1, s1, r1, a1, nv := bigPool(c)
		// claims queued this block count as paid out
		if msgOk && len(claimIDs) > 0 {
			q, _ := c.App.LockingKeeper.EthTxQueue.Get(c.ReadCtx())
			for _, rw := range q.Rewards {
				for _, id := range claimIDs {
					if rw.Id == id {
						claimed.Add(claimed, rw.Goat.BigInt())
						claimed.Add(claimed, rw.Gas.BigInt())
					}
				}
			}
		}
		// conservation imbalance: granted + fees - (pools + accrued + claimed)
		imb := new(big.Int).Add(granted, fees)
		for _, x := range []*big.Int{g1, s1, r1, a1, claimed} {
			imb.Sub(imb, x)
		}
		sign := func(x *big.Int) int { return x.Sign() }
		small := func(x *big.Int) int64 {
			if x.IsInt64() && x.Int64() > -1000000 && x.Int64() < 1000000 {
				return x.Int64()
			}
			if x.Sign() < 0 {
				return -999999
			}
			return 999999
		}
		_ = g0
		_ = s0
		_ = r0
		_ = a0
		w.Emit(Ev{"ev": "block", "run": run, "h": c.Height, "msgOk": msgOk, "imbalance": small(imb),
			"goatSign": sign(g1), "gasSign": sign(s1), "remainSign": sign(r1), "accruedSign": sign(a1), "nvals": nv,
			"cometOk": res.CometErr == nil, "cometErr": errStr(res.CometErr), "cometClass": cometClass(res.CometErr), "extreme": extreme})
		if res.CometErr != nil {
			return nil // CometBFT refuses the update: a real chain stops here, and so does this history
		}
	}
	return nil
}

// cometClass names the reason CometBFT gave for refusing a validator-set update.
func cometClass(err error) string {
	switch {
	case err == nil:
		return ""
	case strings.Contains(err.Error(), "voting power can't be higher than"):
		return "validator-power-above-limit"
	case strings.Contains(err.Error(), "total voting power of resulting valset exceeds max"):
		return "total-power-above-limit"
	}
	return "other"
}
