package drive

import (
	"fmt"
	"math/rand"

	"goatverif/sim"
	"goatverif/tracew"
)

// SystemRandom drives whole-application histories in which ONE execution-block message carries requests for several modules
// at once - possibly failing locking requests next to acceptable bridge requests, or the other way round - together with
// relayer transactions.  The same history (a function of the seed) is recorded from the point of view of one module
// (`which`: lock | bridge): the module whose requests may fail sees the full two-directional verdict rule, the other one is
// told "others unknown" and must (a) never have its own bad requests accepted and (b) be left untouched by a block message that
// failed for somebody else's reason (all-or-nothing across modules).
func SystemRandom(outFile string, seed int64, n, depth int, which string) (int, error) {
	w, err := tracew.Create(outFile)
	if err != nil {
		return 0, err
	}
	defer w.Close()
	for run := 1; run <= n; run++ {
		if err := systemHistory(w, seed*100003+int64(run), run, depth, which); err != nil {
			if _, halted := err.(*HaltError); halted {
				continue
			}
			return w.N, fmt.Errorf("run %d: %w", run, err)
		}
	}
	return w.N, nil
}

func systemHistory(w *tracew.Writer, seed int64, run, depth int, which string) error {
	s, btcKey, err := newHandoverSession(seed, run)
	if err != nil {
		return err
	}
	defer s.C.Close()
	r := rand.New(rand.NewSource(seed ^ 0x5757))
	lg := &lockGen{s: s, r: r, nextID: 1, nv: 5, clean: true}
	bg := &bridgeGen{s: s, r: r, net: netByName["regtest"], netName: "regtest", chain: map[uint64]*btcBlock{}, keys: []*sim.BtcKey{btcKey},
		addrIDs: map[string]string{}, wdNext: 1, clean: true}
	s.bridgeAddrID = bg.addrID
	for i := 0; i < 3; i++ {
		e := make([]byte, 20)
		r.Read(e)
		bg.evms = append(bg.evms, e)
	}
	switch which {
	case "lock":
		s.LockW = w
		if err := s.EmitLockInit(); err != nil {
			return err
		}
	case "bridge":
		s.BridgeW = w
		if err := s.EmitBridgeInit(); err != nil {
			return err
		}
	default:
		return fmt.Errorf("unknown module view %q", which)
	}
	for b := 0; b < depth; b++ {
		// which module's requests may fail in this block (never both: the other one's verdict must be known)
		dirty := []string{"none", "lock", "bridge"}[r.Intn(3)]
		lg.clean, bg.clean = dirty != "lock", dirty != "bridge"
		lp := lg.plan()
		bp, err := bg.plan("")
		if err != nil {
			return err
		}
		lp.Bridge, lp.BridgeAbs, lp.Txs = bp.Bridge, bp.BridgeAbs, bp.Txs
		lp.LockOU, lp.BridgeOU = dirty == "bridge", dirty == "lock"
		res, err := s.RunBlock(lp)
		if err != nil {
			return err
		}
		bg.blockDone(res != nil && res.Res != nil && len(res.Res.TxResults) > 0 && res.Res.TxResults[0].Code == 0)
	}
	return nil
}
