package drive

import (
	"bytes"
	"encoding/hex"
	"fmt"
	"github.com/btcsuite/btcd/btcec/v2"
	"github.com/btcsuite/btcd/btcec/v2/schnorr"
	"math/rand"

	"github.com/btcsuite/btcd/btcutil"
	"github.com/btcsuite/btcd/chaincfg"
	"github.com/btcsuite/btcd/txscript"
	sdk "github.com/cosmos/cosmos-sdk/types"
	"github.com/ethereum/go-ethereum/core/types/goattypes"
	goatcrypto "github.com/goatnetwork/goat/pkg/crypto"
	bitcoinkeeper "github.com/goatnetwork/goat/x/bitcoin/keeper"
	bitcointypes "github.com/goatnetwork/goat/x/bitcoin/types"
	relayertypes "github.com/goatnetwork/goat/x/relayer/types"
	"goatverif/btc"
	"goatverif/project"
	"goatverif/sim"
	"goatverif/tracew"
)

type btcBlock struct {
	h      uint64
	raws   [][]byte
	txids  [][]byte
	tree   *MerkleTree
	header []byte
	hash   []byte
}

// depInfo is a deposit transaction known to the driver.
type depInfo struct {
	raw, txid []byte
	nOuts     int
	outIdx    int
	value     int64
	version   uint32
	key       *sim.BtcKey // what the deposit message will claim
	evm       []byte
	gen       Ev // what the paid script was generated for
	blk       uint64
	pos       int
	mined     bool
	credited  bool
	offeredAt int64    // height of the block whose large batch offered it
	sib       *depInfo // another deposit output of the same transaction
	plain     bool     // an ordinary deposit to the key registered when it was made (candidates of large batches)
	keyID     string   // overrides the interned id of key (a malformed key whose first bytes equal a registered key's)
}

type wdTx struct {
	raw, txid []byte
	outsAbs   []Ev
	pid       int64
	blk       uint64
	pos       int
	mined     bool
}

type bridgeGen struct {
	s            *Session
	r            *rand.Rand
	net          *chaincfg.Params
	chain        map[uint64]*btcBlock
	mined        uint64                       // highest mined bitcoin height
	pending      []func(b *btcBlock, pos int) // callbacks to record where a pending tx got mined
	pendRaw      [][]byte
	keys         []*sim.BtcKey // every key the driver ever created (registered or not)
	evms         [][]byte
	addrIDs      map[string]string
	wdNext       uint64
	idsFrom      uint64 // wdNext when the current block was planned
	forceReplace bool   // spv histories: the next process / replace message is a fee bump
	forceFinal   *wdTx  // this finalisation message is for this mined transaction, unspoilt
	deps         []*depInfo
	wtxs         []*wdTx
	cbDep        *depInfo // a deposit placed in a coinbase transaction
	orphan       *depInfo // the deposit of the registration that was undone in the previous block: presented again, alone
	netName      string
	mode         string
	clean        bool // no execution-layer request that makes the block message fail
	nkey         int
}

func (g *bridgeGen) addrID(a string) string {
	if id, ok := g.addrIDs[a]; ok {
		return id
	}
	return "unknown:" + a
}

var netByName = map[string]*chaincfg.Params{"mainnet": &chaincfg.MainNetParams, "testnet3": &chaincfg.TestNet3Params, "signet": &chaincfg.SigNetParams, "regtest": &chaincfg.RegressionNetParams}

// mine builds the next bitcoin block from the pending transactions (plus a coinbase).
func (g *bridgeGen) mine() *btcBlock {
	h := g.mined + 1
	b := &btcBlock{h: h}
	// coinbase: occasionally itself a deposit
	var cb []byte
	var cbid []byte
	single := false
	if g.cbDep == nil && (g.r.Intn(6) == 0 || g.mode == "deep" || g.mode == "spv") {
		d := g.newDepositTx("none")
		if d != nil {
			g.cbDep = d
			cb, cbid = d.raw, d.txid
			d.blk, d.pos, d.mined = h, 0, true
			g.deps = append(g.deps, d)
			single = g.r.Intn(2) == 0 // a block whose only transaction is this coinbase: its Merkle path is EMPTY (root = txid)
		}
	}
	if cb == nil {
		cb, cbid = btc.Tx(g.r, []btc.Out{{Value: 50_0000_0000, Script: []byte{txscript.OP_TRUE}}}, 4)
	}
	b.raws, b.txids = [][]byte{cb}, [][]byte{cbid}
	// one block in three is shaped so that its last transaction is a pending one at the end of an odd level: Bitcoin's
	// duplicate-last rule then lets that transaction verify at a second position
	aliasShape := len(g.pendRaw) > 0 && g.r.Intn(3) == 0 && !single
	if aliasShape && (1+len(g.pendRaw))%2 == 0 {
		raw, id := btc.Tx(g.r, []btc.Out{{Value: 1000, Script: []byte{txscript.OP_TRUE}}}, 0)
		b.raws, b.txids = append(b.raws, raw), append(b.txids, id)
	}
	for i, raw := range g.pendRaw {
		if single {
			break // the waiting transactions go into the next block
		}
		b.raws = append(b.raws, raw)
		b.txids = append(b.txids, goatcrypto.DoubleSHA256Sum(raw))
		g.pending[i](b, len(b.raws)-1)
	}
	if !single {
		g.pending, g.pendRaw = nil, nil
	}
	// pad with unrelated transactions so that trees have several shapes
	for k := g.r.Intn(4); k > 0 && !aliasShape && !single; k-- {
		raw, id := btc.Tx(g.r, []btc.Out{{Value: 1000, Script: []byte{txscript.OP_TRUE}}}, 0)
		b.raws, b.txids = append(b.raws, raw), append(b.txids, id)
	}
	b.tree = NewMerkleTree(b.txids)
	var prev []byte
	if p := g.chain[h-1]; p != nil {
		prev = p.hash
	} else {
		prev = make([]byte, 32)
	}
	b.header = btc.Header(g.r, prev, b.tree.Root())
	b.hash = btc.BlockHash(b.header)
	g.chain[h] = b
	g.mined = h
	return b
}

func (g *bridgeGen) addPending(raw []byte, cb func(b *btcBlock, pos int)) {
	g.pendRaw = append(g.pendRaw, raw)
	g.pending = append(g.pending, cb)
}

func (g *bridgeGen) curKey() *sim.BtcKey {
	pk, err := g.s.C.App.BitcoinKeeper.Pubkey.Get(g.s.C.ReadCtx())
	if err != nil {
		return g.keys[0]
	}
	id := project.KeyID(&pk)
	for _, k := range g.keys {
		if project.KeyID(k.Pub) == id {
			return k
		}
	}
	return g.keys[0]
}

func keyType(k *sim.BtcKey) string {
	if _, ok := k.Pub.Key.(*relayertypes.PublicKey_Schnorr); ok {
		return "schnorr"
	}
	return "secp256k1"
}

// newDepositTx builds a deposit transaction whose script comes from the node's own DepositAddress query.
func (g *bridgeGen) newDepositTx(flaw string) *depInfo {
	c := g.s.C
	key := g.curKey()
	evm := g.evms[g.r.Intn(len(g.evms))]
	version := uint32(0)
	if keyType(key) == "secp256k1" && g.r.Intn(2) == 0 {
		version = 1
	}
	if keyType(key) == "schnorr" && g.r.Intn(4) == 0 {
		return g.schnorrV1ShapedDeposit(key, evm)
	}
	qs := bitcoinkeeper.NewQueryServerImpl(c.App.BitcoinKeeper)
	resp, err := qs.DepositAddress(c.ReadCtx(), &bitcointypes.QueryDepositAddress{Version: version, EvmAddress: "0x" + hex.EncodeToString(evm)})
	if err != nil {
		return nil
	}
	if g.r.Intn(3) == 0 { // a second answer (for another user) is fetched before the first one is used: answers must not share memory
		other := g.evms[g.r.Intn(len(g.evms))]
		qs.DepositAddress(c.ReadCtx(), &bitcointypes.QueryDepositAddress{Version: uint32(g.r.Intn(2)), EvmAddress: "0x" + hex.EncodeToString(other)})
	}
	addr, err := btcutil.DecodeAddress(resp.Address, g.net)
	if err != nil {
		return nil
	}
	script, err := txscript.PayToAddrScript(addr)
	if err != nil {
		return nil
	}
	value := int64(9000 + g.r.Intn(60000))
	if g.r.Intn(8) == 0 {
		value = []int64{999, 1000, 1001, 9999, 10000, 10001, 20000, 30000}[g.r.Intn(8)]
	} else if g.r.Intn(10) == 0 {
		// whale deposits: 18.4 - 19.9 BTC, around 2^64 / 1e10 satoshi (the satoshi -> wei scaling must not be done in 64 bits); always
		// below project.BigVal (2e9), which stands for "any 64-bit parameter value above the model's integers"
		value = []int64{1_844_674_407, 1_844_674_408, 1_844_674_409 + g.r.Int63n(100_000_000), 1_990_000_000}[g.r.Intn(4)]
	}
	d := &depInfo{version: version, key: key, evm: evm, value: value,
		gen: Ev{"key": project.KeyID(key.Pub), "evm": hex.EncodeToString(evm), "version": int(version), "magicOk": true}}
	if (g.r.Intn(12) == 0 || (g.mode == "addr" && g.r.Intn(5) == 0)) && len(script) > 2 {
		// the handed-out witness program under ANOTHER witness version: a different address, which nobody handed out
		script = append([]byte{}, script...)
		vers := []byte{txscript.OP_0, txscript.OP_1, txscript.OP_2, txscript.OP_3, txscript.OP_16}
		for {
			if v := vers[g.r.Intn(len(vers))]; v != script[0] {
				script[0] = v
				break
			}
		}
		d.gen = Ev{"key": "", "evm": "", "version": -1, "magicOk": false}
	}
	outs := []btc.Out{{Value: value, Script: script}}
	if version == 1 {
		outs = append(outs, btc.Out{Value: 0, Script: resp.OpReturnScript})
	}
	d.outIdx = 0
	if version == 0 && g.r.Intn(3) == 0 { // the deposit output is not the first one
		outs = append([]btc.Out{{Value: 777, Script: []byte{txscript.OP_TRUE}}}, outs...)
		d.outIdx = 1
	}
	var sib *depInfo
	if version == 0 && flaw == "none" && g.r.Intn(4) == 0 {
		// one transaction, TWO deposits: a second output pays the address handed out for another user (each output is credited on its
		// own, each needs its own valid inclusion proof - also after the other one was credited)
		evm2 := g.evms[g.r.Intn(len(g.evms))]
		if resp2, err := qs.DepositAddress(c.ReadCtx(), &bitcointypes.QueryDepositAddress{Version: 0, EvmAddress: "0x" + hex.EncodeToString(evm2)}); err == nil {
			if addr2, err := btcutil.DecodeAddress(resp2.Address, g.net); err == nil {
				if script2, err := txscript.PayToAddrScript(addr2); err == nil {
					v2 := int64(11000 + g.r.Intn(50000))
					outs = append(outs, btc.Out{Value: v2, Script: script2})
					sib = &depInfo{version: 0, key: key, evm: evm2, value: v2, outIdx: len(outs) - 1, plain: true,
						gen: Ev{"key": project.KeyID(key.Pub), "evm": hex.EncodeToString(evm2), "version": 0, "magicOk": true}}
				}
			}
		}
	}
	d.nOuts = len(outs)
	d.raw, d.txid = btc.Tx(g.r, outs, 0)
	if sib != nil {
		sib.nOuts, sib.raw, sib.txid = d.nOuts, d.raw, d.txid
		d.sib = sib
		g.deps = append(g.deps, sib)
	}
	return d
}

// schnorrV1ShapedDeposit builds what a version 1 deposit WOULD look like for a Schnorr relayer key - output 0 pays the key's
// own (taproot key-path) address, output 1 carries OP_RETURN magic||evm - although the node hands out no such address:
// version 1 exists only for ECDSA keys, so the claim must be refused.  The scripts are built with btcd, not with the node's code.
func (g *bridgeGen) schnorrV1ShapedDeposit(key *sim.BtcKey, evm []byte) *depInfo {
	c := g.s.C
	params, err := c.App.BitcoinKeeper.Params.Get(c.ReadCtx())
	if err != nil {
		return nil
	}
	pk, err := schnorr.ParsePubKey(key.Pub.GetSchnorr())
	if err != nil {
		return nil
	}
	out0, err := txscript.NewScriptBuilder().AddOp(txscript.OP_1).AddData(schnorr.SerializePubKey(txscript.ComputeTaprootKeyNoScript(pk))).Script()
	if err != nil {
		return nil
	}
	out1, err := txscript.NewScriptBuilder().AddOp(txscript.OP_RETURN).AddFullData(append(append([]byte{}, params.DepositMagicPrefix...), evm...)).Script()
	if err != nil {
		return nil
	}
	value := int64(9000 + g.r.Intn(60000))
	d := &depInfo{version: 1, key: key, evm: evm, value: value, outIdx: 0, nOuts: 2,
		gen: Ev{"key": project.KeyID(key.Pub), "evm": hex.EncodeToString(evm), "version": 1, "magicOk": true}}
	d.raw, d.txid = btc.Tx(g.r, []btc.Out{{Value: value, Script: out0}, {Value: 0, Script: out1}}, 0)
	return d
}

// ownScriptV1Deposit builds (with btcd, not with the node's code) the version 1 deposit for ANY ECDSA key, registered or not:
// output 0 pays the key's P2WPKH script, output 1 carries OP_RETURN magic||evm. Whether it may be credited depends only on the
// key being a registered relayer key on the state the message runs on.
func (g *bridgeGen) ownScriptV1Deposit(key *sim.BtcKey, evm []byte) *depInfo {
	c := g.s.C
	params, err := c.App.BitcoinKeeper.Params.Get(c.ReadCtx())
	if err != nil || keyType(key) != "secp256k1" {
		return nil
	}
	keyBytes, keyID := key.Pub.GetSecp256K1(), ""
	if g.r.Intn(4) == 0 {
		// a MALFORMED key: a real key followed by extra bytes (34+ bytes). It is no relayer key, whatever its first 33 bytes are;
		// the script below is the one such a "key" would own
		keyBytes = append(append([]byte{}, keyBytes...), byte(1+g.r.Intn(255)))
		key = &sim.BtcKey{Pub: &relayertypes.PublicKey{Key: &relayertypes.PublicKey_Secp256K1{Secp256K1: keyBytes}}}
		keyID = project.KeyID(key.Pub) + "+pad"
	}
	out0, err := txscript.NewScriptBuilder().AddOp(txscript.OP_0).AddData(goatcrypto.Hash160Sum(keyBytes)).Script()
	if err != nil {
		return nil
	}
	out1, err := txscript.NewScriptBuilder().AddOp(txscript.OP_RETURN).AddFullData(append(append([]byte{}, params.DepositMagicPrefix...), evm...)).Script()
	if err != nil {
		return nil
	}
	value := int64(12000 + g.r.Intn(60000))
	genKey := project.KeyID(key.Pub)
	if keyID != "" {
		genKey = keyID
	}
	d := &depInfo{version: 1, key: key, evm: evm, value: value, outIdx: 0, nOuts: 2, keyID: keyID,
		gen: Ev{"key": genKey, "evm": hex.EncodeToString(evm), "version": 1, "magicOk": true}}
	d.raw, d.txid = btc.Tx(g.r, []btc.Out{{Value: value, Script: out0}, {Value: 0, Script: out1}}, 0)
	return d
}

// depositMsgItem turns a known deposit into a message item, optionally corrupting one aspect.
func (g *bridgeGen) depositItem(d *depInfo, flaw string) (*bitcointypes.Deposit, *bitcointypes.BlockHeader, Ev) {
	blk := g.chain[d.blk]
	dep := &bitcointypes.Deposit{Version: d.version, BlockNumber: d.blk, TxIndex: uint32(d.pos), NoWitnessTx: d.raw, OutputIndex: uint32(d.outIdx),
		IntermediateProof: flat(blk.tree.Path(d.pos)), EvmAddress: d.evm, RelayerPubkey: d.key.Pub}
	hdr := &bitcointypes.BlockHeader{Height: d.blk, Raw: blk.header}
	kid := project.KeyID(d.key.Pub)
	if d.keyID != "" {
		kid = d.keyID
	}
	f := Ev{"wf": true, "key": kid, "keyType": keyType(d.key), "blk": int64(d.blk), "pos": d.pos, "hdr": project.H6(blk.hash), "parseOk": true,
		"txid": project.H6(d.txid), "nOuts": d.nOuts, "outIdx": d.outIdx, "value": d.value, "version": int(d.version), "evm": hex.EncodeToString(d.evm),
		"spvOk": true, "gen": d.gen, "flaw": flaw, "pathLen": len(dep.IntermediateProof) / 32}
	switch flaw {
	case "otherEvm":
		e2 := g.evms[(g.r.Intn(len(g.evms)-1)+1+indexOf(g.evms, d.evm))%len(g.evms)]
		dep.EvmAddress = e2
		f["evm"] = hex.EncodeToString(e2)
	case "evmFold": // ALMOST the EVM address the output was made for: the bytes that are ASCII letters in the other case (or, without
		// any, one byte >= 0x80 replaced by another) - equal under a text comparison that folds case, a different address all the same
		e2 := append([]byte{}, d.evm...)
		changed := false
		for i, b := range e2 {
			if (b >= 'A' && b <= 'Z') || (b >= 'a' && b <= 'z') {
				e2[i] = b ^ 0x20
				changed = true
			}
		}
		if !changed {
			for i, b := range e2 {
				if b >= 0x80 {
					e2[i] = b ^ 1
					changed = true
					break
				}
			}
		}
		if !changed {
			e2[19] ^= 1
		}
		dep.EvmAddress = e2
		f["evm"] = hex.EncodeToString(e2)
	case "otherKey": // claims another registered (or not) key than the one the script commits to
		k2 := g.keys[g.r.Intn(len(g.keys))]
		dep.RelayerPubkey = k2.Pub
		f["key"], f["keyType"] = project.KeyID(k2.Pub), keyType(k2)
	case "version":
		dep.Version = 1 - d.version
		f["version"] = int(1 - d.version)
	case "version2":
		dep.Version = 2
		f["version"] = 2
	case "outIdx":
		dep.OutputIndex = uint32(d.nOuts)
		f["outIdx"] = d.nOuts
	case "otherOut":
		if d.nOuts > 1 {
			other := 1 - d.outIdx
			if other < 0 {
				other = 0
			}
			dep.OutputIndex = uint32(other)
			f["outIdx"] = other
			f["value"] = int64(0)
			if d.version == 0 {
				f["value"] = int64(777)
			}
			f["gen"] = Ev{"key": "", "evm": "", "version": -1, "magicOk": false}
			for _, x := range g.deps { // the other output may itself be a deposit (of the same transaction, for another user)
				if x != d && x.outIdx == other && bytes.Equal(x.txid, d.txid) {
					f["value"], f["gen"] = x.value, x.gen
				}
			}
		}
	case "pos":
		p2 := (d.pos + 1 + g.r.Intn(3))
		dep.TxIndex = uint32(p2)
		// Bitcoin's duplicate-last rule lets the last leaf of an odd level also verify at the position of its copy
		depth := len(blk.tree.Levels) - 1
		f["pos"], f["spvOk"] = p2, p2 < 1<<uint(depth) && merkleSrc(depth, len(blk.txids), p2) == d.pos
	case "dupAlias": // the same output once more, under the position of its Merkle duplicate if it has one (else plainly repeated)
		depth := len(blk.tree.Levels) - 1
		for p2 := 0; p2 < 1<<uint(depth); p2++ {
			if p2 != d.pos && merkleSrc(depth, len(blk.txids), p2) == d.pos {
				dep.TxIndex = uint32(p2)
				f["pos"] = p2
				break
			}
		}
	case "posAlias": // same low bits, extra high bits
		depth := len(blk.tree.Levels) - 1
		k := 1
		if g.r.Intn(2) == 0 {
			k = 2 + g.r.Intn(2)
		}
		p2 := d.pos + k<<uint(depth)
		dep.TxIndex = uint32(p2)
		f["pos"], f["spvOk"] = p2, false
	case "proof":
		pr := append([]byte{}, dep.IntermediateProof...)
		if len(pr) == 0 {
			pr = make([]byte, 32)
		}
		pr[g.r.Intn(len(pr))] ^= 0x10
		dep.IntermediateProof = pr
		f["spvOk"] = false
	case "proofRagged": // the genuine path followed by 1..31 stray bytes: not a sequence of hashes
		stray := make([]byte, 1+g.r.Intn(31))
		g.r.Read(stray)
		dep.IntermediateProof = append(append([]byte{}, dep.IntermediateProof...), stray...)
		f["spvOk"] = false
	case "proofTrunc":
		if len(dep.IntermediateProof) >= 32 {
			dep.IntermediateProof = dep.IntermediateProof[:len(dep.IntermediateProof)-32]
			f["spvOk"] = false
		}
	case "header": // header of another mined block under the claimed height
		if o := g.chain[d.blk-1]; o != nil {
			hdr.Raw = o.header
			f["hdr"] = project.H6(o.hash)
		}
	case "noHeader":
		hdr = nil
		f["hdr"] = "none"
	case "evmLen":
		dep.EvmAddress = d.evm[:19]
		f["wf"] = false
	case "txTrunc":
		dep.NoWitnessTx = d.raw[:len(d.raw)-3]
		f["parseOk"] = false
		f["wf"] = len(dep.NoWitnessTx) >= bitcointypes.MinDepositTxSize
		f["txid"] = project.H6(goatcrypto.DoubleSHA256Sum(dep.NoWitnessTx))
	}
	return dep, hdr, f
}

// merkleSrc mirrors Src of Merkle.tla: the real leaf carried by position p of the implicit perfect tree.
func merkleSrc(d, n, p int) int {
	if d == 0 {
		return 0
	}
	q := merkleSrc(d-1, (n+1)/2, p/2)
	c := 2*q + p%2
	if c >= n {
		return n - 1
	}
	return c
}

func indexOf(list [][]byte, x []byte) int {
	for i, e := range list {
		if string(e) == string(x) {
			return i
		}
	}
	return 0
}

// relTx signs a relayer transaction by the current proposer.
func (s *Session) relTx(vc *voteCtx, msg sdk.Msg, off int) ([]byte, error) {
	prop := s.member(vc.Proposer)
	_, accSeq, _ := s.C.Account(prop.Addr)
	sq := accSeq + uint64(off)
	return s.C.SignTx(prop.Priv, []sdk.Msg{msg}, sim.SignOpts{Seq: &sq})
}

// fullVote is a genuine vote by the whole group over data for the given kind.
func (s *Session) fullVote(vc *voteCtx, kind string, data []byte, bad bool) (*relayertypes.Votes, bool) {
	marks := make([]int, len(vc.Voters))
	signers := []int{vc.Proposer}
	for i, v := range vc.Voters {
		marks[i] = i
		signers = append(signers, v)
	}
	mut := "none"
	if bad {
		mut = []string{"seqPlus", "otherPayload", "epochPlus", "chain"}[s.R.Intn(4)]
	}
	v, _, _ := s.BuildVote(vc, kind, "x", data, VoteSpec{Marks: marks, Signers: signers, Mut: mut})
	if s.OddBitmaps && !bad && s.R.Intn(6) == 0 {
		// a genuine vote whose bitmap lost its trailing zero bytes (its length is no longer a multiple of 8): the reference
		// implementation refuses it (the bitmap library rejects the length). Only used where outcomes are compared between
		// executions, never where the driver predicts them.
		bm := v.Voters
		for len(bm) > 1 && bm[len(bm)-1] == 0 {
			bm = bm[:len(bm)-1]
		}
		v.Voters = bm
		return v, false
	}
	return v, !bad
}

// BridgeRandom drives n random histories of the bridge module.
func BridgeRandom(outFile string, seed int64, n, depth int, mode, network string) (int, error) {
	if network == "" {
		network = "regtest"
	}
	w, err := tracew.Create(outFile)
	if err != nil {
		return 0, err
	}
	defer w.Close()
	for run := 1; run <= n; run++ {
		if err := bridgeHistory(w, seed*100003+int64(run), run, depth, mode, network); err != nil {
			if _, halted := err.(*HaltError); halted {
				continue
			}
			return w.N, fmt.Errorf("run %d: %w", run, err)
		}
	}
	return w.N, nil
}

func bridgeHistory(w *tracew.Writer, seed int64, run, depth int, mode, network string) error {
	r := rand.New(rand.NewSource(seed))
	schnorr := r.Intn(3) == 0
	c, btcKey, err := NewStdChain(ChainOpts{ChainID: "goat-br", Seed: seed % 5, NVals: 1, NMembers: 8, Voters: []int{1, 2}, Proposer: 0,
		Period: 100000, AcceptTimeout: 100000, SchnorrKey: schnorr,
		Mutate: func(g *sim.Genesis) {
			g.Bitcoin.Params.NetworkName = netByName[network].Name
			if r.Intn(2) == 0 {
				g.Bitcoin.Params.DepositTaxRate, g.Bitcoin.Params.MaxDepositTax = uint64(1+r.Intn(30)), uint64(50+r.Intn(5000))
			}
			if mode == "params" && r.Intn(2) == 0 { // boundary genesis parameters (whatever Params.Validate lets through)
				saved := g.Bitcoin.Params
				g.Bitcoin.Params.DepositTaxRate = []uint64{1, 9999, 10000}[r.Intn(3)]
				g.Bitcoin.Params.MaxDepositTax = []uint64{1, 100000000}[r.Intn(2)]
				g.Bitcoin.Params.MinDepositAmount = []uint64{1000, 10000}[r.Intn(2)]
				tame := g.Bitcoin.Params
				if r.Intn(2) == 0 { // out-of-range companions of a perfectly valid tax setting (and of no tax at all)
					g.Bitcoin.Params.ConfirmationNumber = []uint64{0, 1, 6}[r.Intn(3)]
					g.Bitcoin.Params.MinDepositAmount = []uint64{1, 546, 999, 1000, 10000}[r.Intn(5)]
					if r.Intn(3) == 0 {
						g.Bitcoin.Params.DepositTaxRate, g.Bitcoin.Params.MaxDepositTax = 0, 0
					}
				}
				if err := g.Bitcoin.Params.Validate(); err != nil { // refused by the module's own validation: not a reachable genesis
					g.Bitcoin.Params = tame
					if err := g.Bitcoin.Params.Validate(); err != nil {
						g.Bitcoin.Params.DepositTaxRate = 9999
						if err := g.Bitcoin.Params.Validate(); err != nil {
							g.Bitcoin.Params = saved
						}
					}
				}
			}
		}})
	if err != nil {
		return err
	}
	defer c.Close()
	s := NewSession(c, seed, run)
	s.BridgeW = w
	g := &bridgeGen{s: s, r: r, net: netByName[network], netName: network, mode: mode, chain: map[uint64]*btcBlock{}, keys: []*sim.BtcKey{btcKey},
		addrIDs: map[string]string{}, wdNext: 1}
	s.bridgeAddrID = g.addrID
	for i := 0; i < 3; i++ {
		e := make([]byte, 20)
		r.Read(e)
		g.evms = append(g.evms, e)
	}
	if r.Intn(3) == 0 { // boundary EVM addresses: all zeros, all ones
		g.evms[r.Intn(3)] = bytes.Repeat([]byte{[]byte{0, 0xff}[r.Intn(2)]}, 20)
	}
	if err := s.EmitBridgeInit(); err != nil {
		return err
	}
	for b := 0; b < depth; b++ {
		plan, err := g.plan(mode)
		if err != nil {
			return err
		}
		res, err := s.RunBlock(plan)
		if err != nil {
			return err
		}
		g.blockDone(res != nil && res.Res != nil && len(res.Res.TxResults) > 0 && res.Res.TxResults[0].Code == 0)
	}
	return nil
}

// blockDone: when the execution-block message failed, the execution layer's head did not move: the next execution block is
// another child of the same parent and numbers its withdrawal requests from the same id again - the ids of the failed block
// come back, attached to OTHER requests (addresses, amounts).
func (g *bridgeGen) blockDone(msgOk bool) {
	if !msgOk && g.idsFrom > 0 && g.idsFrom < g.wdNext && g.r.Intn(2) == 0 {
		g.wdNext = g.idsFrom
	}
}

func (s *Session) EmitBridgeInit() error {
	st, err := project.Bridge(s.C, s.bridgeAddrID)
	if err != nil {
		return err
	}
	s.emit(s.BridgeW, "init", Ev{"st": st})
	return nil
}

// newAddress makes a withdrawal address of the given kind on the given network.
func (g *bridgeGen) newAddress() (addr, net, kind string) {
	nets := []string{g.netName, g.netName, g.netName, "regtest", "mainnet", "testnet3", "signet"}
	kinds := []string{"p2pkh", "p2sh", "p2wpkh", "p2wsh", "p2tr", "p2pk", "garbage"}
	net = nets[g.r.Intn(len(nets))]
	kind = kinds[g.r.Intn(len(kinds))]
	if g.r.Intn(3) > 0 {
		kind = kinds[g.r.Intn(5)]
	}
	np := netByName[net]
	b20, b32 := make([]byte, 20), make([]byte, 32)
	g.r.Read(b20)
	g.r.Read(b32)
	var a btcutil.Address
	var err error
	switch kind {
	case "p2pkh":
		a, err = btcutil.NewAddressPubKeyHash(b20, np)
	case "p2sh":
		a, err = btcutil.NewAddressScriptHashFromHash(b20, np)
	case "p2wpkh":
		a, err = btcutil.NewAddressWitnessPubKeyHash(b20, np)
	case "p2wsh":
		a, err = btcutil.NewAddressWitnessScriptHash(b32, np)
	case "p2tr":
		a, err = btcutil.NewAddressTaproot(b32, np)
	case "p2pk":
		// legacy pay-to-pubkey "addresses" are the hex of the public key itself: compressed, uncompressed or hybrid
		k := sim.NewBtcKey(g.r.Int63(), 1, false)
		raw := k.Pub.GetSecp256K1()
		if pk, perr := btcec.ParsePubKey(raw); perr == nil {
			switch g.r.Intn(3) {
			case 1:
				raw = pk.SerializeUncompressed()
			case 2:
				raw = pk.SerializeUncompressed()
				raw[0] = 0x06 | raw[64]&1
			}
		}
		addr = hex.EncodeToString(raw)
		g.addrIDs[addr] = "bad:" + addr[:8]
		return
	default:
		addr = fmt.Sprintf("notanaddress%d", g.r.Intn(1000))
		g.addrIDs[addr] = "bad:" + addr
		return
	}
	if err != nil {
		panic(err)
	}
	addr = a.EncodeAddress()
	script, err := txscript.PayToAddrScript(a)
	if err != nil {
		panic(err)
	}
	g.addrIDs[addr] = hex.EncodeToString(script)
	return
}

func (g *bridgeGen) plan(mode string) (*BlockPlan, error) {
	s, r, c := g.s, g.r, g.s.C
	st, err := project.Bridge(c, g.addrID)
	if err != nil {
		return nil, err
	}
	vc, err := s.voteCtx()
	if err != nil {
		return nil, err
	}
	plan := &BlockPlan{DT: 1, Proposer: 0}
	rare := func(k int) bool { return r.Intn(k) == 0 }
	g.idsFrom = g.wdNext
	for _, d := range g.deps {
		if d.sib != nil && d.mined && !d.sib.mined {
			d.sib.blk, d.sib.pos, d.sib.mined = d.blk, d.pos, true
		}
	}

	// the bitcoin network moves on
	if rare(2) || g.mined < uint64(st.Tip)+2 {
		for k := 1 + r.Intn(2); k > 0; k-- {
			g.mine()
		}
	}
	// fresh deposit transactions waiting to be mined
	if rare(2) {
		nd := 1 + r.Intn(2)
		if mode == "burst" && rare(2) {
			nd = 8 + r.Intn(7) // more deposits than one execution block is told about (8)
		}
		for k := nd; k > 0; k-- {
			if d := g.newDepositTx("none"); d != nil {
				dd := d
				dd.plain = true
				g.addPending(d.raw, func(b *btcBlock, pos int) { dd.blk, dd.pos, dd.mined = b.h, pos, true })
				g.deps = append(g.deps, d)
			}
		}
	}

	if (rare(4) || (mode == "addr" && rare(2))) && len(g.keys) > 0 { // a deposit to the script of some other key the harness knows: an older relayer key, or one whose
		// registration failed / has not happened (never a relayer key on the committed state)
		k := g.keys[r.Intn(len(g.keys))]
		if rare(2) { // a key nobody has proposed (yet)
			g.nkey++
			k = sim.NewBtcKey(int64(g.nkey)*977+r.Int63n(1<<40), g.nkey, false)
			g.keys = append(g.keys, k)
		}
		if rare(3) { // the chain's first key (mostly still registered): what counts then is the padded variant of it
			k = g.keys[0]
		}
		if d := g.ownScriptV1Deposit(k, g.evms[r.Intn(len(g.evms))]); d != nil {
			dd := d
			g.addPending(d.raw, func(b *btcBlock, pos int) { dd.blk, dd.pos, dd.mined = b.h, pos, true })
			g.deps = append(g.deps, d)
		}
	}

	// --- execution-layer bridge requests
	br := &goattypes.BridgeRequests{}
	abs := Ev{"withdraws": []Ev{}, "rbf": []Ev{}, "cancel1": []int64{}, "tax": []Ev{}, "conf": []int64{}, "minDep": []int64{}}
	var wds, rbfs, taxes []Ev
	var cancels, confs, minDeps []int64
	if rare(3) || (mode == "addr" && rare(2)) {
		nw := 1 + r.Intn(3)
		if rare(6) || (mode == "burst" && rare(2)) {
			nw = 8 + r.Intn(6) // many withdrawals requested in one execution block
		}
		allBad := mode == "burst" && nw >= 8 && rare(3) // more refund notices than one execution block carries
		for k := nw; k > 0; k-- {
			addr, net, kind := g.newAddress()
			for try := 0; allBad && net == g.netName && try < 20; try++ {
				addr, net, kind = g.newAddress()
			}
			if n := len(br.Withdraws); n > 0 && rare(3) { // the same address as the request before it (valid or not) in one batch
				addr, net, kind = br.Withdraws[n-1].Address, wds[n-1]["net"].(string), wds[n-1]["kind"].(string)
			}
			id := g.wdNext
			g.wdNext++
			amt, price := uint64(10000+r.Intn(90000)), uint64(1+r.Intn(40))
			if rare(8) { // whale withdrawals around 2^64 / 1e10 satoshi (the paid notice scales satoshi to wei)
				amt = []uint64{1_844_674_407, 1_844_674_708, 1_844_675_000 + uint64(r.Intn(100_000_000))}[r.Intn(3)]
			}
			br.Withdraws = append(br.Withdraws, &goattypes.WithdrawalRequest{Id: id, Amount: amt, TxPrice: price, Address: addr})
			wds = append(wds, Ev{"id": int64(id), "amount": int64(amt), "price": int64(price), "addr": g.addrID(addr), "net": net, "kind": kind})
		}
	}
	pickWd := func() int64 {
		if len(st.Wd) == 0 || (!g.clean && rare(15)) {
			return int64(900 + r.Intn(5))
		}
		return st.Wd[r.Intn(len(st.Wd))].ID
	}
	if rare(6) && (!g.clean || len(st.Wd) > 0) {
		id, price := pickWd(), uint64(1+r.Intn(60))
		br.ReplaceByFees = append(br.ReplaceByFees, &goattypes.ReplaceByFeeRequest{Id: uint64(id), TxPrice: price})
		rbfs = append(rbfs, Ev{"id": id, "price": int64(price)})
	}
	if rare(5) && (!g.clean || len(st.Wd) > 0) {
		id := pickWd()
		br.Cancel1s = append(br.Cancel1s, &goattypes.Cancel1Request{Id: uint64(id)})
		cancels = append(cancels, id)
	}
	pk := 1
	if mode == "params" {
		pk = 4 // parameter updates four times as often
	}
	if r.Intn(8) < pk {
		for k := 1 + r.Intn(pk); k > 0; k-- {
			rate := []uint64{0, 1, 20, 9999, 10000, 10001, 500, 1 << 63, ^uint64(0)}[r.Intn(9)]
			max := []uint64{0, 1, 100, 5000, 100000000, 100000001, 1 << 63, ^uint64(0)}[r.Intn(8)]
			br.DepositTax = append(br.DepositTax, &goattypes.DepositTaxRequest{Rate: rate, Max: max})
			taxes = append(taxes, Ev{"rate": project.Clamp(rate), "max": project.Clamp(max)})
		}
	}
	several := func() int { // mostly one request of a kind per block; now and then several (in range and out of range, in any order)
		if r.Intn(3) == 0 {
			return 2 + r.Intn(2)
		}
		return 1
	}
	if r.Intn(12) < pk {
		for k := several(); k > 0; k-- {
			n := []uint64{0, 1, 6, 1 << 63}[r.Intn(4)]
			br.Confirmation = append(br.Confirmation, &goattypes.ConfirmationNumberRequest{Number: n})
			confs = append(confs, project.Clamp(n))
		}
	}
	if r.Intn(8) < pk {
		n := uint64(0)
		for k := several(); k > 0; k-- {
			n = []uint64{0, 999, 1000, 1001, 5000, 20000, ^uint64(0)}[r.Intn(7)]
			br.MinDeposit = append(br.MinDeposit, &goattypes.MinDepositRequest{Satoshi: n})
			minDeps = append(minDeps, project.Clamp(n))
		}
		_ = n
	}
	if wds != nil {
		abs["withdraws"] = wds
	}
	if rbfs != nil {
		abs["rbf"] = rbfs
	}
	if cancels != nil {
		abs["cancel1"] = cancels
	}
	if taxes != nil {
		abs["tax"] = taxes
	}
	if confs != nil {
		abs["conf"] = confs
	}
	if minDeps != nil {
		abs["minDep"] = minDeps
	}
	plan.Bridge = br
	plan.BridgeAbs = abs

	// --- relayer transactions
	off := 0
	add := func(msg sdk.Msg, ev string, f Ev) error {
		bz, err := s.relTx(vc, msg, off)
		if err != nil {
			return err
		}
		off++
		f["pfOk"] = true
		plan.Txs = append(plan.Txs, &RelTx{Bytes: bz, Ev: "other", F: Ev{}, BEv: ev, BF: f})
		return nil
	}
	votedUsed := false   // at most one genuine voted message per block (the sequence advances)
	if g.orphan != nil { // the deposit for the key whose registration was undone a block ago, now on its own
		d := g.orphan
		g.orphan = nil
		dep, hdr, f := g.depositItem(d, "none")
		dm := &bitcointypes.MsgNewDeposits{Proposer: s.member(vc.Proposer).Bech, Deposits: []*bitcointypes.Deposit{dep}, BlockHeaders: []*bitcointypes.BlockHeader{hdr}}
		if err := add(dm, "deposits", Ev{"wf": true, "deps": []Ev{f}}); err != nil {
			return nil, err
		}
	}
	ntx := r.Intn(5)
	nearCb := mode == "deep" && g.cbDep != nil && !g.cbDep.credited && int64(g.cbDep.blk)+95 <= st.Tip && st.Tip <= int64(g.cbDep.blk)+102
	if nearCb && ntx < 2 {
		ntx = 2
	}
	climb := mode == "deep" && g.cbDep != nil && !g.cbDep.credited && st.Tip <= int64(g.cbDep.blk)+102
	if climb && ntx < 1 {
		ntx = 1
	}
	largeMined := false // the transaction of a large processing batch is mined below the voted tip: finalise it now
	if mode == "burst" {
		for _, p := range st.Proc {
			for _, w := range g.wtxs {
				if len(p.IDs) >= 9 && w.pid == p.Pid && w.mined && int64(w.blk) <= st.Tip && indexOfStr(p.Txids, project.H6(w.txid)) >= 0 {
					largeMined = true
				}
			}
		}
		if largeMined && ntx < 1 {
			ntx = 1
		}
	}
	// spv histories steer towards what C04's second observation point needs: a processing batch, a fee bump of it, the replacement
	// mined below the voted tip, its finalisation (two blocks in three; otherwise the usual random mix)
	want := -1
	g.forceReplace = false
	if mode == "spv" && !rare(3) {
		have2, laterMined, pend := false, false, false
		for _, p := range st.Proc {
			if len(p.Txids) >= 2 {
				have2 = true
				for _, w := range g.wtxs {
					if k := indexOfStr(p.Txids, project.H6(w.txid)); k >= 1 && w.pid == p.Pid && w.mined && int64(w.blk) <= st.Tip {
						laterMined = true
					}
				}
			}
		}
		for _, w := range st.Wd {
			pend = pend || w.Status == "pending"
		}
		switch {
		case laterMined:
			want = 16
		case have2:
			want = 0
		case len(st.Proc) > 0:
			want, g.forceReplace = 14, true
		case pend:
			want = 14
		}
		if want >= 0 && ntx < 1 {
			ntx = 1
		}
	}
	for k := 0; k < ntx; k++ {
		x := r.Intn(22)
		if want >= 0 && k == 0 {
			x = want
		}
		if nearCb && k == 0 {
			x = 10 // present the coinbase deposit at every height around its maturity
		}
		if climb && ((nearCb && k == 1) || (!nearCb && k == 0)) {
			x = 0 // deep histories vote block hashes in every block until the coinbase deposit has matured
		}
		if largeMined && k == 0 {
			x = 16
		}
		switch {
		case x < 6: // vote block hashes
			if votedUsed {
				continue
			}
			start := uint64(st.Tip) + 1
			if g.mined < start {
				continue
			}
			n := 1 + r.Intn(3)
			if rare(8) {
				n = 0 // an empty batch
			}
			if mode == "deep" {
				n = 16
				// approach the coinbase-maturity boundary one block at a time, so that "99 above" and "100 above" both occur
				if g.cbDep != nil && !g.cbDep.credited && start+15 >= g.cbDep.blk+96 && start <= g.cbDep.blk+102 {
					n = 1
					if start+uint64(n) <= g.cbDep.blk+96 {
						n = int(g.cbDep.blk + 96 - start)
					}
				}
			}
			for g.mined < start+uint64(n)-1 && mode == "deep" {
				g.mine()
			}
			if uint64(n) > g.mined-start+1 {
				n = int(g.mined - start + 1)
			}
			m := &bitcointypes.MsgNewBlockHashes{Proposer: s.member(vc.Proposer).Bech, StartBlockNumber: start}
			hs := []string{}
			for i := 0; i < n; i++ {
				m.BlockHash = append(m.BlockHash, g.chain[start+uint64(i)].hash)
				hs = append(hs, project.H6(g.chain[start+uint64(i)].hash))
			}
			f := Ev{"wf": true, "start": int64(start), "hashes": hs}
			bad := rare(10)
			if rare(12) || (n == 0 && rare(2)) { // a batch (also an empty one) that does not start right above the tip
				d := []int64{1, 2, -1, -2, -int64(start) + 1}[r.Intn(5)]
				if int64(start)+d >= 1 {
					m.StartBlockNumber = uint64(int64(start) + d)
					f["start"] = int64(m.StartBlockNumber)
				}
			}
			vt, ok := s.fullVote(vc, "NewBlockHashes", m.VoteSigDoc(), bad)
			m.Vote = vt
			f["voteOk"] = ok
			if ok {
				votedUsed = true
			}
			if err := add(m, "hashes", f); err != nil {
				return nil, err
			}
		case x < 7 || (mode == "addr" && x < 9): // new relayer key
			if votedUsed {
				continue
			}
			g.nkey++
			nk := sim.NewBtcKey(int64(g.nkey)*131+r.Int63n(1<<40), g.nkey, r.Intn(2) == 0)
			if rare(4) && len(g.keys) > 0 {
				nk = g.keys[r.Intn(len(g.keys))] // possibly already registered
			} else {
				g.keys = append(g.keys, nk)
			}
			m := &bitcointypes.MsgNewPubkey{Proposer: s.member(vc.Proposer).Bech, Pubkey: nk.Pub}
			vt, ok := s.fullVote(vc, "NewPubkey", m.VoteSigDoc(), rare(8))
			m.Vote = vt
			if ok {
				votedUsed = true
			}
			if err := add(m, "pubkey", Ev{"wf": true, "key": project.KeyID(nk.Pub), "voteOk": ok}); err != nil {
				return nil, err
			}
		case x < 13: // deposits
			var cand []*depInfo
			for _, d := range g.deps {
				if d.mined && (int64(d.blk) <= st.Tip || rare(6)) && (!d.credited || rare(4)) {
					cand = append(cand, d)
				}
			}
			if len(cand) == 0 {
				continue
			}
			nearMaturity := g.cbDep != nil && int64(g.cbDep.blk)+95 <= st.Tip && st.Tip <= int64(g.cbDep.blk)+102
			if g.mode == "deep" && g.cbDep != nil && (rare(2) || nearMaturity) {
				cand = []*depInfo{g.cbDep}
			}
			m := &bitcointypes.MsgNewDeposits{Proposer: s.member(vc.Proposer).Bech}
			var items []Ev
			seenH := map[uint64]bool{}
			nItems, perm := 1+r.Intn(3), []int(nil)
			if mode == "burst" && rare(2) {
				var good []*depInfo
				done := map[string]bool{}
				for _, x := range st.Deposited {
					if len(x) == 2 {
						done[fmt.Sprint(x[0], "/", x[1])] = true
					}
				}
				for _, d := range g.deps {
					if done[fmt.Sprint(project.H6(d.txid), "/", d.outIdx)] || d.gen["magicOk"] != true || fmt.Sprint(d.gen["version"]) != fmt.Sprint(d.version) {
						continue
					}
					// deposits that will be credited: confirmed, not credited (nor offered in an earlier large batch of this block), of a
					// sufficient and ordinary value, of a version the key type supports
					if d.plain && d.mined && int64(d.blk)+int64(st.Params.Conf) <= st.Tip+1 && !d.credited && d != g.cbDep && d.offeredAt != s.C.Height+1 &&
						d.value >= st.Params.MinDeposit && d.value < 1_000_000_000 && (d.version == 0 || keyType(d.key) == "secp256k1") {
						good = append(good, d)
					}
				}
				if len(good) >= 9 { // one message credits more deposits than one execution block carries
					cand = good
					nItems, perm = 9+r.Intn(6), r.Perm(len(cand))
					if nItems > len(cand) {
						nItems = len(cand)
					}
				}
			}
			for j := nItems; j > 0; j-- {
				d := cand[r.Intn(len(cand))]
				if perm != nil {
					d = cand[perm[j-1]]
					d.offeredAt = s.C.Height + 1
				}
				halfDone := false // another output of d's transaction has been credited already, d has not
				if mode == "spv" && perm == nil && rare(2) {
					for _, x := range g.deps {
						if x.sib != nil && x.mined && int64(x.blk) <= st.Tip {
							for _, pair := range [][2]*depInfo{{x, x.sib}, {x.sib, x}} {
								if hasDeposited(st, pair[0]) && !hasDeposited(st, pair[1]) {
									d, halfDone = pair[1], true
								}
							}
						}
					}
				}
				flaw := "none"
				if halfDone && !rare(3) { // ... and its own inclusion proof counts as much as the first one's did
					flaw = []string{"pos", "proof", "proofTrunc", "proofRagged", "header"}[r.Intn(5)]
				} else if halfDone {
				} else if d == g.cbDep && rare(3) { // a coinbase transaction presented under an aliased (non-zero) position
					flaw = "posAlias"
				} else if mode == "addr" && rare(3) {
					flaw = []string{"otherEvm", "evmFold", "evmFold", "otherKey", "version", "otherOut"}[r.Intn(6)]
				} else if mode == "spv" { // only what the inclusion proof is about varies: position, path, header
					if rare(3) {
						flaw = []string{"pos", "posAlias", "proof", "proofTrunc", "proofRagged", "header"}[r.Intn(6)]
					}
				} else if rare(4) && perm == nil {
					flaw = []string{"otherEvm", "evmFold", "otherKey", "version", "version2", "outIdx", "otherOut", "pos", "posAlias", "proof", "proofTrunc", "proofRagged", "header", "noHeader", "evmLen", "txTrunc"}[r.Intn(16)]
				}
				if flaw == "none" && j > 1 && rare(3) && perm == nil {
					for _, x := range cand { // prefer an output that really has a second position
						if bx := g.chain[x.blk]; bx != nil && x.pos == len(bx.txids)-1 && len(bx.txids)%2 == 1 && len(bx.txids) > 1 {
							d = x
							break
						}
					}
				}
				if flaw == "none" && j > 1 && rare(4) && perm == nil { // the same output twice in one batch (second time under an alias position)
					dep0, hdr0, f0 := g.depositItem(d, "none")
					m.Deposits = append(m.Deposits, dep0)
					if hdr0 != nil && !seenH[hdr0.Height] {
						m.BlockHeaders = append(m.BlockHeaders, hdr0)
						seenH[hdr0.Height] = true
					}
					items = append(items, f0)
					flaw = "dupAlias"
					j--
				}
				dep, hdr, f := g.depositItem(d, flaw)
				m.Deposits = append(m.Deposits, dep)
				if hdr != nil && !seenH[hdr.Height] {
					m.BlockHeaders = append(m.BlockHeaders, hdr)
					seenH[hdr.Height] = true
				} else if hdr != nil && flaw == "header" {
					f["hdr"] = project.H6(goatcrypto.DoubleSHA256Sum(headerFor(m.BlockHeaders, hdr.Height)))
				}
				items = append(items, f)
			}
			// the header list is per height: every item of a height sees the first header supplied for it
			for i, it := range items {
				raw := headerFor(m.BlockHeaders, m.Deposits[i].BlockNumber)
				if raw == nil {
					it["hdr"] = "none"
				} else {
					it["hdr"] = project.H6(goatcrypto.DoubleSHA256Sum(raw))
				}
			}
			wf := len(m.BlockHeaders) >= 1 && len(m.BlockHeaders) <= len(m.Deposits)
			if err := add(m, "deposits", Ev{"wf": wf, "deps": items}); err != nil {
				return nil, err
			}
		case x < 16: // process withdrawals
			if votedUsed {
				continue
			}
			tx, err := g.processTx(vc, st)
			if err != nil {
				return nil, err
			}
			if tx == nil {
				continue
			}
			if tx.BF["voteOk"].(bool) {
				votedUsed = true
			}
			bz, err := s.relTx(vc, tx.msg, off)
			if err != nil {
				return nil, err
			}
			off++
			tx.BF["pfOk"] = true
			plan.Txs = append(plan.Txs, &RelTx{Bytes: bz, Ev: "other", F: Ev{}, BEv: tx.BEv, BF: tx.BF})
		case x < 18: // finalize (often two batches one after the other in the same block: the paid notices of both are owed)
			// batches whose registered transaction is mined below the voted tip: with two or more of them, two are finalised in this block
			// (the paid notices of both are owed); a single one now and then waits for company
			var ready []*wdTx
			for _, p := range st.Proc {
				for _, w := range g.wtxs {
					if w.pid == p.Pid && w.mined && int64(w.blk) <= st.Tip && indexOfStr(p.Txids, project.H6(w.txid)) >= 0 {
						ready = append(ready, w)
						break
					}
				}
			}
			if len(ready) == 1 && mode != "spv" && mode != "burst" && rare(3) {
				continue
			}
			for rep := 0; rep < 2; rep++ {
				g.forceFinal = nil
				if len(ready) >= 2 && mode != "spv" {
					g.forceFinal = ready[rep]
				}
				m, f := g.finalizeMsg(vc, st)
				g.forceFinal = nil
				if m == nil {
					break
				}
				if err := add(m, "finalize", f); err != nil {
					return nil, err
				}
				if rare(2) && len(ready) < 2 {
					break
				}
			}
		case x >= 20: // consolidation: a voted transaction with exactly one output, paying the current relayer key
			if votedUsed {
				continue
			}
			cur := g.curKey()
			payTo, payCur := cur, true
			if rare(5) && len(g.keys) > 1 { // an older / other registered key
				payTo = g.keys[r.Intn(len(g.keys))]
				payCur = project.KeyID(payTo.Pub) == project.KeyID(cur.Pub)
			}
			sc := btc.SystemScript(payTo.Pub)
			if rare(8) { // right hash under the other witness version / a truncated program
				sc = append([]byte{}, sc...)
				if rare(2) {
					sc[0] ^= txscript.OP_0 ^ txscript.OP_1
				} else {
					sc = sc[:len(sc)-1]
					sc[1]--
				}
				payCur = false
			}
			outs := []btc.Out{{Value: int64(20000 + r.Intn(500000)), Script: sc}}
			if rare(5) { // a second output (also to the current key): not a consolidation
				outs = append(outs, btc.Out{Value: 1234, Script: btc.SystemScript(cur.Pub)})
			}
			if rare(12) { // no output at all
				outs = nil
			}
			raw, _ := btc.Tx(r, outs, r.Intn(40))
			parseOk := true
			if rare(10) { // trailing bytes after the transaction
				raw = append(append([]byte{}, raw...), byte(r.Intn(256)))
				parseOk = false
			}
			m := &bitcointypes.MsgNewConsolidation{Proposer: s.member(vc.Proposer).Bech, NoWitnessTx: raw}
			vt, ok := s.fullVote(vc, "NewConsolidation", m.VoteSigDoc(), rare(8))
			m.Vote = vt
			if ok && parseOk && len(outs) == 1 && payCur {
				votedUsed = true
			}
			if err := add(m, "consolidation", Ev{"wf": true, "parseOk": parseOk, "nOuts": len(outs), "payCur": payCur && len(outs) > 0, "voteOk": ok}); err != nil {
				return nil, err
			}
		default: // approve cancellation
			var ids []uint64
			var idsAbs []int64
			for _, w := range st.Wd {
				if (w.Status == "canceling" && !rare(4)) || rare(25) {
					ids = append(ids, uint64(w.ID))
					idsAbs = append(idsAbs, w.ID)
				}
			}
			if rare(10) && len(ids) > 0 {
				ids = append(ids, ids[0])
				idsAbs = append(idsAbs, idsAbs[0])
			}
			if len(ids) == 0 && !rare(5) {
				continue
			}
			if idsAbs == nil {
				idsAbs = []int64{}
			}
			m := &bitcointypes.MsgApproveCancellation{Proposer: s.member(vc.Proposer).Bech, Id: ids}
			if err := add(m, "approve", Ev{"wf": len(ids) > 0 && len(ids) <= 32, "ids": idsAbs}); err != nil {
				return nil, err
			}
		}
	}
	// a registration that is undone: ONE transaction registers a new relayer key (genuine vote), credits a deposit paying that
	// key's script, and then fails in its third message. Nothing of it may remain: the key is not a relayer key, the deposit is
	// not credited - and stays refused when it is presented again later (it is in g.deps)
	forceMerge := 0
	if !votedUsed && rare(5) {
		reg := map[string]bool{}
		for _, k := range st.Pubkeys {
			reg[k] = true
		}
		for _, d := range g.deps {
			if d.mined && int64(d.blk) <= st.Tip && !reg[project.KeyID(d.key.Pub)] && d.gen["key"] == project.KeyID(d.key.Pub) && d.version == 1 {
				m := &bitcointypes.MsgNewPubkey{Proposer: s.member(vc.Proposer).Bech, Pubkey: d.key.Pub}
				vt, ok := s.fullVote(vc, "NewPubkey", m.VoteSigDoc(), false)
				m.Vote = vt
				if err := add(m, "pubkey", Ev{"wf": true, "key": project.KeyID(d.key.Pub), "voteOk": ok}); err != nil {
					return nil, err
				}
				dep, hdr, f := g.depositItem(d, "none")
				dm := &bitcointypes.MsgNewDeposits{Proposer: s.member(vc.Proposer).Bech, Deposits: []*bitcointypes.Deposit{dep}, BlockHeaders: []*bitcointypes.BlockHeader{hdr}}
				if err := add(dm, "deposits", Ev{"wf": true, "deps": []Ev{f}}); err != nil {
					return nil, err
				}
				am := &bitcointypes.MsgApproveCancellation{Proposer: s.member(vc.Proposer).Bech, Id: []uint64{99999}}
				if err := add(am, "approve", Ev{"wf": true, "ids": []int64{99999}}); err != nil {
					return nil, err
				}
				forceMerge = 3
				g.orphan = d
				break
			}
		}
	}
	// sometimes the last two or three messages travel in ONE transaction: if a later one fails, what the earlier ones did
	// (voted hashes, a new key, credited deposits, withdrawal status changes) is undone
	if n := len(plan.Txs); n >= 2 && (rare(4) || forceMerge > 0) {
		k := 2
		if n >= 3 && rare(2) {
			k = 3
		}
		if forceMerge > 0 {
			k = forceMerge
		}
		prop := s.member(vc.Proposer)
		_, accSeq, _ := c.Account(prop.Addr)
		if m, err := s.MergeTxs(prop.Priv, plan.Txs[n-k:], accSeq+uint64(n-k)); err == nil {
			plan.Txs = append(plan.Txs[:n-k:n-k], m)
		}
	}
	return plan, nil
}

func headerFor(hs []*bitcointypes.BlockHeader, h uint64) []byte {
	for _, x := range hs {
		if x.Height == h {
			return x.Raw
		}
	}
	return nil
}

type brTx struct {
	msg sdk.Msg
	BEv string
	BF  Ev
}

// processTx builds MsgProcessWithdrawal or MsgReplaceWithdrawal for some withdrawals, usually well-formed.
func (g *bridgeGen) processTx(vc *voteCtx, st *project.BridgeState) (*brTx, error) {
	s, r := g.s, g.r
	rare := func(k int) bool { return r.Intn(k) == 0 }
	scriptOf := map[string][]byte{}
	for _, id := range g.addrIDs {
		if b, err := hex.DecodeString(id); err == nil {
			scriptOf[id] = b
		}
	}
	cur := g.curKey()
	replace := len(st.Proc) > 0 && (rare(3) || (g.mode == "spv" && rare(2)) || g.forceReplace)
	var ids []int64
	var pid int64
	var prevFee int64
	if replace {
		p := st.Proc[r.Intn(len(st.Proc))]
		ids, pid, prevFee = p.IDs, p.Pid, p.Fee
	} else {
		maxIDs := 3
		if rare(5) || (g.mode == "burst" && rare(2)) {
			maxIDs = 9 + r.Intn(6) // a large batch: more paid notices than one execution block delivers (8)
		}
		for _, w := range st.Wd {
			if (w.Status == "pending" || w.Status == "canceling") && (rare(2) || maxIDs > 3) && len(ids) < maxIDs {
				ids = append(ids, w.ID)
			}
		}
		if rare(12) && len(st.Wd) > 0 {
			ids = append(ids, st.Wd[r.Intn(len(st.Wd))].ID) // possibly a non-pending or duplicate id
		}
		if rare(4) { // deliberately: a withdrawal in a terminal or processing state whose address is fine (everything else about the
			// transaction is right, only the status stands against it) - e.g. a cancellation approved a moment ago
			byStatus := map[string][]int64{}
			for _, w := range st.Wd {
				if (w.Status == "canceled" || w.Status == "paid" || w.Status == "processing") && scriptOf[w.Addr] != nil {
					byStatus[w.Status] = append(byStatus[w.Status], w.ID)
				}
			}
			var classes []string // one of the classes that occur, each with the same chance (cancelled ones are the rarest in the state)
			for _, c := range []string{"canceled", "paid", "processing"} {
				if len(byStatus[c]) > 0 {
					classes = append(classes, c)
				}
			}
			if len(classes) > 0 && len(ids) < 3 {
				late := byStatus[classes[r.Intn(len(classes))]]
				ids = append(ids, late[r.Intn(len(late))])
			}
		}
		if len(ids) == 0 {
			return nil, nil
		}
	}
	wdByID := map[int64]project.BWd{}
	for _, w := range st.Wd {
		wdByID[w.ID] = w
	}
	var outs []btc.Out
	var outsAbs []Ev
	minPrice := int64(1 << 30)
	for _, id := range ids {
		w := wdByID[id]
		script := scriptOf[w.Addr]
		sid := w.Addr
		if script == nil || rare(15) {
			script = []byte{txscript.OP_TRUE, byte(r.Intn(200))}
			sid = hex.EncodeToString(script)
		}
		val := w.Amount - int64(r.Intn(300))
		if rare(12) {
			val = w.Amount + 1 + int64(r.Intn(5))
		}
		if val < 1 {
			val = 1
		}
		outs = append(outs, btc.Out{Value: val, Script: script})
		outsAbs = append(outsAbs, Ev{"script": sid, "value": val})
		if w.MaxPrice < minPrice {
			minPrice = w.MaxPrice
		}
	}
	if rare(2) { // change output
		k := cur
		if rare(6) && len(g.keys) > 1 {
			k = g.keys[r.Intn(len(g.keys))]
		}
		sc := btc.SystemScript(k.Pub)
		outs = append(outs, btc.Out{Value: 1234, Script: sc})
		outsAbs = append(outsAbs, Ev{"script": project.KeyID(k.Pub), "value": int64(1234)})
	}
	if rare(20) {
		outs = append(outs, btc.Out{Value: 1, Script: []byte{txscript.OP_TRUE}}, btc.Out{Value: 1, Script: []byte{txscript.OP_TRUE}})
		outsAbs = append(outsAbs, Ev{"script": "51", "value": int64(1)}, Ev{"script": "51", "value": int64(1)})
	}
	if rare(15) && len(outs) > 1 { // fewer outputs than withdrawals
		outs, outsAbs = outs[:len(outs)-1], outsAbs[:len(outsAbs)-1]
	}
	raw, txid := btc.Tx(r, outs, r.Intn(40))
	again := false
	if replace && rare(5) { // "replace" by a transaction that was already voted for this withdrawal batch
		for _, o := range g.wtxs {
			if o.pid == pid && o.outsAbs != nil {
				raw, txid, outsAbs, again = o.raw, o.txid, o.outsAbs, true
				break
			}
		}
	}
	size := int64(len(raw))
	if minPrice > 1000 {
		minPrice = 5
	}
	fee := minPrice*size - int64(r.Intn(50))
	if rare(8) {
		fee = minPrice*size + 1 + int64(r.Intn(20))
	}
	if replace && !rare(8) && fee <= prevFee {
		fee = prevFee + 1 + int64(r.Intn(30))
	}
	if replace && rare(4) {
		fee = prevFee // a replacement must pay strictly more: the same fee is no fee bump
	}
	if fee < 1 {
		fee = 1
	}
	wt := &wdTx{raw: raw, txid: txid, pid: pid, outsAbs: outsAbs}
	bad := rare(10)
	f := Ev{"wf": true, "parseOk": true, "outs": outsAbs, "fee": fee, "size": size, "txid": project.H6(txid)}
	var msg sdk.Msg
	ev := "process"
	if replace {
		m := &bitcointypes.MsgReplaceWithdrawal{Proposer: s.member(vc.Proposer).Bech, Pid: uint64(pid), NewNoWitnessTx: raw, NewTxFee: uint64(fee)}
		vt, ok := s.fullVote(vc, "ReplaceWithdrawal", m.VoteSigDoc(), bad)
		m.Vote = vt
		f["voteOk"], f["pid"] = ok, pid
		msg, ev = m, "replace"
	} else {
		uids := make([]uint64, len(ids))
		for i, id := range ids {
			uids[i] = uint64(id)
		}
		m := &bitcointypes.MsgProcessWithdrawal{Proposer: s.member(vc.Proposer).Bech, Id: uids, NoWitnessTx: raw, TxFee: uint64(fee)}
		vt, ok := s.fullVote(vc, "ProcessWithdrawal", m.VoteSigDoc(), bad)
		m.Vote = vt
		f["voteOk"], f["ids"] = ok, ids
		wt.pid = st.NextPid
		msg = m
	}
	// the transaction may get mined later (whether or not the node accepted it)
	if !again {
		ww := wt
		g.addPending(raw, func(b *btcBlock, pos int) { ww.blk, ww.pos, ww.mined = b.h, pos, true })
		g.wtxs = append(g.wtxs, wt)
	}
	return &brTx{msg: msg, BEv: ev, BF: f}, nil
}

func (g *bridgeGen) finalizeMsg(vc *voteCtx, st *project.BridgeState) (sdk.Msg, Ev) {
	s, r := g.s, g.r
	rare := func(k int) bool { return r.Intn(k) == 0 }
	var cand []*wdTx
	for _, w := range g.wtxs {
		if w.mined && int64(w.blk) <= st.Tip {
			cand = append(cand, w)
		}
	}
	if len(cand) == 0 {
		return nil, nil
	}
	w := cand[r.Intn(len(cand))]
	large := false
	if g.forceFinal != nil {
		w, large = g.forceFinal, true
	}
	if g.mode == "spv" && rare(2) { // a batch that was fee-bumped: one of its mined transactions - the original, a replacement, the latest
		var bumped, later []*wdTx
		for _, p := range st.Proc {
			for _, c := range cand {
				if k := indexOfStr(p.Txids, project.H6(c.txid)); len(p.Txids) >= 2 && c.pid == p.Pid && k >= 0 {
					bumped = append(bumped, c)
					if k >= 1 {
						later = append(later, c)
					}
				}
			}
		}
		if len(later) > 0 && !rare(3) {
			w = later[r.Intn(len(later))]
		} else if len(bumped) > 0 {
			w = bumped[r.Intn(len(bumped))]
		} else if rare(2) {
			return nil, nil // leave the batches alone for now: a fee bump may still come
		}
	}
	if g.mode == "burst" { // the mined transaction of a large batch still in processing goes first, and unspoilt
		for _, p := range st.Proc {
			for _, c := range cand {
				if len(p.IDs) >= 9 && c.pid == p.Pid && indexOfStr(p.Txids, project.H6(c.txid)) >= 0 {
					w, large = c, true
				}
			}
		}
	}
	blk := g.chain[w.blk]
	m := &bitcointypes.MsgFinalizeWithdrawal{Proposer: s.member(vc.Proposer).Bech, Pid: uint64(w.pid), Txid: w.txid, BlockNumber: w.blk,
		TxIndex: uint32(w.pos), IntermediateProof: flat(blk.tree.Path(w.pos)), BlockHeader: blk.header}
	f := Ev{"wf": true, "pid": w.pid, "txid": project.H6(w.txid), "blk": int64(w.blk), "hdr": project.H6(blk.hash), "spvOk": true}
	if (rare(5) || (g.mode == "spv" && rare(3))) && !large {
		pick := r.Intn(6)
		if g.mode == "spv" { // proof-related only: ragged path, flipped bit, another header, position 0
			pick = []int{5, 1, 2, 3}[r.Intn(4)]
		}
		switch pick {
		case 5: // ragged path
			stray := make([]byte, 1+r.Intn(31))
			r.Read(stray)
			m.IntermediateProof = append(append([]byte{}, m.IntermediateProof...), stray...)
			f["spvOk"] = false
		case 0:
			m.Pid += uint64(1 + r.Intn(2))
			f["pid"] = int64(m.Pid)
		case 1:
			m.IntermediateProof = append([]byte{}, m.IntermediateProof...)
			m.IntermediateProof[r.Intn(len(m.IntermediateProof))] ^= 1
			f["spvOk"] = false
		case 2:
			if o := g.chain[w.blk-1]; o != nil {
				m.BlockHeader = o.header
				f["hdr"] = project.H6(o.hash)
			}
		case 3:
			m.TxIndex = 0
			f["wf"] = false
		case 4:
			m.BlockNumber = uint64(st.Tip) + 5
			f["blk"] = int64(m.BlockNumber)
		}
	}
	return m, f
}

func indexOfStr(xs []string, x string) int {
	for i, v := range xs {
		if v == x {
			return i
		}
	}
	return -1
}

func hasDeposited(st *project.BridgeState, d *depInfo) bool {
	for _, x := range st.Deposited {
		if len(x) == 2 && fmt.Sprint(x[0]) == project.H6(d.txid) && fmt.Sprint(x[1]) == fmt.Sprint(d.outIdx) {
			return true
		}
	}
	return false
}
