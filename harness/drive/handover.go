package drive

import (
	"bytes"
	"crypto/sha256"
	"encoding/hex"
	"fmt"
	bitcointypes "github.com/goatnetwork/goat/x/bitcoin/types"
	relayertypes "github.com/goatnetwork/goat/x/relayer/types"
	"math/rand"
	"sort"
	"strings"
	"time"

	abci "github.com/cometbft/cometbft/abci/types"
	sdk "github.com/cosmos/cosmos-sdk/types"
	"github.com/ethereum/go-ethereum/common"
	"github.com/ethereum/go-ethereum/core/types/goattypes"
	goatmodtypes "github.com/goatnetwork/goat/x/goat/types"
	"goatverif/project"
	"goatverif/sim"
	"goatverif/tracew"
)

// HandoverOpts select what the handover driver emphasises.
type HandoverOpts struct {
	Mode string // "" | "faults" | "mutations" | "determinism" | "burst"
}

type hoDriver struct {
	w    *tracew.Writer
	r    *rand.Rand
	run  int
	a, b *Session // node and replica
	m    *Session // a second replica that is offered the mutated proposals; its engine log never takes part in a verdict
	lg   *lockGen
	bg   *bridgeGen
	opts HandoverOpts
	fill int // relayer transactions still waiting in the mempool from a flood (more than one block can carry)

	lastBlock bool   // the history's final block (determinism mode: the whole validator set may leave in it)
	left      int    // blocks left after this one
	forceMut  string // the next mutated proposal is of this kind (consumed)
}

func (d *hoDriver) emit(ev string, f Ev) {
	f["ev"] = ev
	f["run"] = d.run
	d.w.Emit(f)
}

// HandoverRandom drives n histories of the whole application through the real ABCI surface.
func HandoverRandom(outFile string, seed int64, n, depth int, o HandoverOpts) (int, error) {
	w, err := tracew.Create(outFile)
	if err != nil {
		return 0, err
	}
	defer w.Close()
	for run := 1; run <= n; run++ {
		if err := handoverHistory(w, seed*100003+int64(run), run, depth, o); err != nil {
			if _, halted := err.(*HaltError); halted {
				continue // the trace holds the events that no specification action explains
			}
			return w.N, fmt.Errorf("run %d: %w", run, err)
		}
	}
	return w.N, nil
}

func newHandoverSession(seed int64, run int) (*Session, *sim.BtcKey, error) {
	r := rand.New(rand.NewSource(seed))
	c, btcKey, err := NewLockingChainKey(seed%5, LockingOpts{PowerReduction: 1, MaxVals: 2, NVals: 5}, r)
	if err != nil {
		return nil, nil, err
	}
	return NewSession(c, seed, run), btcKey, nil
}

func handoverHistory(w *tracew.Writer, seed int64, run, depth int, o HandoverOpts) error {
	sim.MempoolMaxTx = 10 // the daemon's default
	if o.Mode == "mutations" || o.Mode == "burst" {
		sim.MempoolMaxTx = 64 // an operator-raised mempool: more waiting transactions than a block may carry
	}
	a, btcKey, err := newHandoverSession(seed, run)
	if err != nil {
		return err
	}
	defer a.C.Close()
	b, _, err := newHandoverSession(seed, run)
	if err != nil {
		return err
	}
	defer b.C.Close()
	// Mutated proposals fail fast in ProcessProposal while the engine request of the same call may still be on its way;
	// such a late request must not land in an engine log that is compared (replica B's executions are part of C07).
	m, _, err := newHandoverSession(seed, run)
	if err != nil {
		return err
	}
	defer m.C.Close()
	r := rand.New(rand.NewSource(seed ^ 0x5eed))
	d := &hoDriver{w: w, r: r, run: run, a: a, b: b, m: m, opts: o}
	d.lg = &lockGen{s: a, r: r, nextID: 1, nv: 5, clean: true}
	if o.Mode == "burst" {
		d.lg.mode = "burst"
	}
	if o.Mode == "determinism" {
		d.lg.clean = false
		d.lg.mode = "multifail"
		a.OddBitmaps = true
	}
	d.bg = &bridgeGen{s: a, r: r, net: netByName["regtest"], netName: "regtest", chain: map[uint64]*btcBlock{}, keys: []*sim.BtcKey{btcKey},
		addrIDs: map[string]string{}, wdNext: 1, clean: true}
	if o.Mode == "burst" {
		d.bg.mode = "burst"
	}
	for i := 0; i < 3; i++ {
		e := make([]byte, 20)
		r.Read(e)
		d.bg.evms = append(d.bg.evms, e)
	}
	if r.Intn(3) == 0 { // boundary EVM addresses: all zeros, all ones
		d.bg.evms[r.Intn(3)] = bytes.Repeat([]byte{[]byte{0, 0xff}[r.Intn(2)]}, 20)
	}
	st, err := project.Handover(a.C)
	if err != nil {
		return err
	}
	d.emit("init", Ev{"C": st, "h": a.C.Height})
	for i := 0; i < depth; i++ {
		d.lastBlock, d.left = i == depth-1, depth-1-i
		if err := d.height(); err != nil {
			return err
		}
	}
	return nil
}

// describe turns a concrete proposal into the facts the specification reasons about.
func (d *hoDriver) describe(c *sim.Chain, txs [][]byte, engineAnswer string, sigOk, restOk bool) Ev {
	p := Ev{"ntx": len(txs), "first": "garbage", "firstMsgs": 0, "blockElsewhere": false, "restOk": restOk, "sigOk": sigOk,
		"proposer": 0, "recipient": 0, "timeout": 0, "timeOk": true, "parent": "", "number": 0, "beacon": "", "hash": "",
		"reqDecodeOk": false, "ngas": 0, "blob": 0, "sysCountOk": false, "sys": []Ev{}, "engine": engineAnswer}
	isBlock := func(m sdk.Msg) bool { _, ok := m.(*goatmodtypes.MsgNewEthBlock); return ok }
	for i, raw := range txs {
		tx, err := c.TxCfg.TxDecoder()(raw)
		if err != nil {
			continue
		}
		msgs := tx.GetMsgs()
		if i > 0 {
			for _, m := range msgs {
				if isBlock(m) {
					p["blockElsewhere"] = true
				}
			}
			continue
		}
		p["firstMsgs"] = len(msgs)
		p["first"] = "other"
		if len(msgs) == 0 {
			continue
		}
		if tt, ok := tx.(sdk.TxWithTimeoutHeight); ok {
			p["timeout"] = int64(tt.GetTimeoutHeight())
		}
		eb, ok := msgs[0].(*goatmodtypes.MsgNewEthBlock)
		if !ok {
			p["first"] = "relayer"
			continue
		}
		p["first"] = "block"
		if addr, err := sdk.GetFromBech32(eb.Proposer, "goat"); err == nil {
			p["proposer"] = c.KR.ValID(addr)
		}
		pl := eb.Payload
		if pl == nil {
			continue
		}
		p["recipient"] = c.KR.ValID(pl.FeeRecipient)
		p["timeOk"] = pl.Timestamp <= uint64(time.Now().Unix())
		p["parent"], p["number"], p["beacon"], p["hash"] = project.H6(pl.ParentHash), int64(pl.BlockNumber), project.H6(pl.BeaconRoot), project.H6(pl.BlockHash)
		p["blob"] = int64(pl.BlobGasUsed)
		if _, _, lk, err := goattypes.DecodeRequests(pl.Requests); err == nil {
			p["reqDecodeOk"], p["ngas"] = true, len(lk.Gas)
		}
		if len(pl.ExtraData) == 33 && len(pl.Transactions) >= int(pl.ExtraData[0]) {
			p["sysCountOk"] = true
			sys := []Ev{}
			for _, t := range project.DecodeSysTxs(pl.Transactions, int(pl.ExtraData[0])) {
				k, id := project.SysID(t)
				sys = append(sys, Ev{"kind": k, "id": id, "nonce": t.Nonce})
			}
			p["sys"] = sys
		}
	}
	return p
}

func (d *hoDriver) committed(tag string, c *sim.Chain) error {
	st, err := project.Handover(c)
	if err != nil {
		return err
	}
	d.emit(tag, Ev{"C": st})
	return nil
}

// execDetail is the readable form of what execDigest hashes (for replays of a nondeterminism report).
func execDetail(res *abci.ResponseFinalizeBlock) string {
	out := "app=" + hex.EncodeToString(res.AppHash[:4])
	for _, r := range res.TxResults {
		out += fmt.Sprintf(" %d/%d", r.Code, r.GasUsed)
	}
	return out + fmt.Sprintf(" ups=%d", len(res.ValidatorUpdates))
}

// execDigest summarises what one execution of a block produced (C07).
func execDigest(res *abci.ResponseFinalizeBlock, engine []sim.EngineCall, c *sim.Chain) string {
	h := sha256.New()
	h.Write(res.AppHash)
	for _, r := range res.TxResults {
		fmt.Fprintf(h, "|%d/%s/%d", r.Code, r.Codespace, r.GasUsed)
	}
	var ups []string
	for _, u := range res.ValidatorUpdates {
		ups = append(ups, fmt.Sprintf("%x:%d", u.PubKey.GetSecp256K1(), u.Power))
	}
	sort.Strings(ups)
	fmt.Fprintf(h, "|%v", ups)
	for _, e := range engine {
		fmt.Fprintf(h, "|%s/%s/%s/%s/%s", e.Method, e.Head, e.Safe, e.Fin, e.Hash)
	}
	return hex.EncodeToString(h.Sum(nil)[:10])
}

// execDigestSet is execDigest with the engine calls taken as a SET, keeping of the newPayload requests only those for a block
// that a forkchoiceUpdated call of the same log names as head: on the replica that receives the mutated proposals, a refused
// ProcessProposal may leave its newPayload request in flight (the client gave up, the server logs it at any later moment, also
// during the execution of a LATER proposal); such late requests are for payloads that never became head. What FinalizeBlock
// itself tells the engine - newPayload(head), forkchoiceUpdated(head, safe, finalized) - stays in the digest.
func execDigestSet(res *abci.ResponseFinalizeBlock, engine []sim.EngineCall, c *sim.Chain, own string) string {
	heads := map[string]bool{}
	for _, e := range engine {
		if e.Method == "fcu" {
			heads[e.Head] = true
		}
	}
	seen := map[string]bool{}
	var uniq []sim.EngineCall
	for _, e := range engine {
		if e.Method == "newPayload" && !heads[e.Hash] {
			continue
		}
		k := fmt.Sprintf("%s/%s/%s/%s/%s", e.Method, e.Head, e.Safe, e.Fin, e.Hash)
		if !seen[k] {
			seen[k] = true
			uniq = append(uniq, e)
		}
	}
	sort.Slice(uniq, func(i, j int) bool {
		return fmt.Sprintf("%s/%s/%s", uniq[i].Method, uniq[i].Head, uniq[i].Hash) < fmt.Sprintf("%s/%s/%s", uniq[j].Method, uniq[j].Head, uniq[j].Hash)
	})
	return execDigest(res, uniq, c)
}

func engineView(calls []sim.EngineCall) []Ev {
	out := []Ev{}
	for _, e := range calls {
		out = append(out, Ev{"m": e.Method, "head": stripHex(e.Head), "safe": stripHex(e.Safe), "fin": stripHex(e.Fin), "hash": stripHex(e.Hash), "attr": e.Attr, "fault": e.Fault})
	}
	return out
}

// the engine log carries 4-byte prefixes ("0x12345678"); the projection uses 6 bytes: compare on the log's width
func stripHex(s string) string {
	if len(s) > 2 && s[:2] == "0x" {
		return s[2:]
	}
	return s
}

func (d *hoDriver) height() error {
	a, b, r := d.a, d.b, d.r
	rare := func(k int) bool { return r.Intn(k) == 0 }
	h := a.C.Height + 1
	d.lg.exodus = d.opts.Mode == "determinism" && d.lastBlock && d.run%2 == 0
	d.lg.boost = d.opts.Mode == "determinism" && d.run%2 == 0 && d.left >= 2 && d.left <= 4 // a few blocks before: make several validators active
	lp := d.lg.plan()
	bp, err := d.bg.plan(d.bg.mode)
	if err != nil {
		return err
	}
	// both replicas advance their clocks together
	a.Tick += lp.DT
	b.Tick = a.Tick
	now := a.C.TimeAt(a.Tick)
	proposer := 0 // the node's own validator (always a member: it is the bedrock validator)
	votes := a.C.DefaultVotes(h, lp.Absent)
	mkBlock := func(c *sim.Chain, txs [][]byte, round int) *sim.Block {
		return &sim.Block{Height: h, Round: round, Time: now, Proposer: proposer, Votes: votes, Misbehavior: lp.Misb, Txs: txs}
	}
	// what the execution layer will report in the block built on top of the current head
	var reqs [][]byte
	reqs = append(reqs, lp.Locking.Encode()...)
	reqs = append(reqs, bp.Bridge.Encode()...)
	a.C.Eng.NextRequests = reqs
	b.C.Eng.NextRequests = reqs
	// now and then the execution block is LARGE (hundreds of kilobytes of user transactions); the blocks after it are small
	// again. The honest proposal must be accepted and its block message must succeed whatever the size of this or of the
	// previous execution block.
	var userTxs [][]byte
	if rare(12) {
		big := make([]byte, 300_000+r.Intn(400_000))
		r.Read(big)
		userTxs = [][]byte{big}
	}
	a.C.Eng.NextUserTxs, b.C.Eng.NextUserTxs, d.m.C.Eng.NextUserTxs = userTxs, userTxs, userTxs

	// Mempool floods (C08: "whatever the mempool contents ... stays within the 16-transaction cap"): now and then more valid
	// relayer transactions than a block can carry are waiting; while they drain, no other relayer transaction is produced
	// (their account sequences follow the flood's).
	var fillers [][]byte
	if d.fill == 0 && a.C.Height >= a.C.InitialHeight && (d.opts.Mode == "mutations" || d.opts.Mode == "burst") && rare(5) {
		if vc, err := a.voteCtx(); err == nil {
			n := 15 + r.Intn(12)
			for i := 0; i < n; i++ {
				if tx, err := a.AcceptTx(vc, 999, i); err == nil {
					fillers = append(fillers, tx.Bytes)
				}
			}
			d.fill = len(fillers)
		}
	}
	if d.fill > 0 {
		bp.Txs = nil
	}
	// now and then one more relayer transaction waits in the mempool whose timeout height is the height just committed (the
	// mempool still admits it, the next block may not carry it: the honest proposer must leave it out), the height being built
	// (last chance) or far away
	var expiring []byte
	if a.C.Height >= a.C.InitialHeight && d.fill == 0 && rare(4) {
		if vc, err := a.voteCtx(); err == nil {
			prop := a.member(vc.Proposer)
			_, accSeq, _ := a.C.Account(prop.Addr)
			sq := accSeq + uint64(len(bp.Txs))
			to := []uint64{uint64(a.C.Height), uint64(a.C.Height), uint64(a.C.Height) + 1, uint64(a.C.Height) + 50}[r.Intn(4)]
			msg := &relayertypes.MsgAcceptProposerRequest{Proposer: prop.Bech, Epoch: vc.Epoch}
			if bz, err := a.C.SignTx(prop.Priv, []sdk.Msg{msg}, sim.SignOpts{Seq: &sq, TimeoutHeight: to}); err == nil {
				expiring = bz
			}
		}
	}
	feedMempool := func() {
		if expiring != nil && a.C.Height >= a.C.InitialHeight {
			defer func() { a.C.App.CheckTx(&abci.RequestCheckTx{Tx: expiring, Type: abci.CheckTxType_New}) }()
		}
		if a.C.Height >= a.C.InitialHeight { // CheckTx needs a committed block
			for _, t := range bp.Txs {
				a.C.App.CheckTx(&abci.RequestCheckTx{Tx: t.Bytes, Type: abci.CheckTxType_New})
			}
			for _, t := range fillers {
				a.C.App.CheckTx(&abci.RequestCheckTx{Tx: t, Type: abci.CheckTxType_New})
			}
		}
	}
	feedMempool()

	round, stuck, halts := 0, 0, 0
	var proposal [][]byte
	for {
		// ---- prepare (possibly under an engine fault)
		fault := "none"
		if (d.opts.Mode == "faults" && rare(3)) || rare(25) {
			site := []string{"fcu", "getPayload"}[r.Intn(2)]
			kinds := []string{sim.FaultError, sim.FaultInvalid, sim.FaultSyncing, sim.FaultAccepted, sim.FaultNilID, sim.FaultTimeout}
			if site == "getPayload" {
				kinds = []string{sim.FaultError, sim.FaultTimeout}
			}
			kind := kinds[r.Intn(len(kinds))]
			fault = site + ":" + kind
			oneShot := rare(2) // a transient fault: only the first such call fails, an immediate repetition would get through
			a.C.Eng.SetFault(func(m string, n int, attr bool) string {
				if m == site && (!oneShot || n == 0) {
					return kind
				}
				return ""
			})
		}
		a.C.Eng.ResetCounters()
		a.C.Eng.TakeLog()
		blk := mkBlock(a.C, nil, round)
		pp, err := a.C.Prepare(blk, nil)
		a.C.Eng.SetFault(nil)
		if err != nil {
			return fmt.Errorf("prepare returned an error: %w", err)
		}
		okPrep := len(pp.Txs) > 0
		if okPrep {
			if _, err := a.PayloadOf(pp.Txs[0]); err != nil {
				okPrep = false
			}
		}
		d.emit("prepare", Ev{"h": h, "round": round, "fault": fault, "ok": okPrep, "ntx": len(pp.Txs), "engine": engineView(a.C.Eng.TakeLog())})
		if !okPrep {
			// the fallback proposal (raw mempool transactions) must be rejected by every honest replica
			if len(pp.Txs) <= 16 {
				blkF := mkBlock(b.C, pp.Txs, round)
				res, err := b.C.Process(blkF)
				if err != nil {
					d.emit("process", Ev{"h": h, "proposer": proposer + 1, "replica": "B", "mut": "fallback", "accept": false, "p": d.describe(b.C, pp.Txs, "VALID", true, true)})
				} else {
					d.emit("process", Ev{"h": h, "proposer": proposer + 1, "replica": "B", "mut": "fallback", "accept": res.Status == abci.ResponseProcessProposal_ACCEPT,
						"p": d.describe(b.C, pp.Txs, "VALID", true, true)})
				}
			}
			round++
			if fault == "none" {
				stuck++
				if stuck >= 3 { // no proposal can be built on a healthy engine: logged (every such `prepare` is rejected); the history ends
					return &HaltError{Height: h, Err: fmt.Errorf("no honest proposal could be built on a well-behaved engine in %d rounds", stuck)}
				}
			}
			continue
		}
		proposal = pp.Txs

		// ---- mutated proposals must be rejected (C08)
		nmut := 0
		if d.opts.Mode == "mutations" {
			nmut = 3
		} else if rare(3) {
			nmut = 1
		}
		if d.opts.Mode == "determinism" && d.left == 5 && round == 0 {
			d.forceMut, nmut = "futureTime", 1
		}
		for k := 0; k < nmut; k++ {
			if err := d.mutatedProcess(h, round, proposer, now, votes, lp.Misb, proposal); err != nil {
				return err
			}
		}
		// ---- the honest proposal is accepted by the proposer itself and by the replica
		for _, rep := range []struct {
			name string
			s    *Session
		}{{"A", a}, {"B", b}} {
			answer := "VALID"
			if rep.name == "B" && ((d.opts.Mode == "faults" && rare(4)) || rare(30)) {
				kind := []string{sim.FaultError, sim.FaultInvalid, sim.FaultSyncing, sim.FaultAccepted}[r.Intn(4)]
				answer = kind
				rep.s.C.Eng.SetFault(func(m string, n int, attr bool) string {
					if m == "newPayload" {
						return kind
					}
					return ""
				})
			}
			res, err := rep.s.C.Process(mkBlock(rep.s.C, proposal, round))
			rep.s.C.Eng.SetFault(nil)
			rep.s.C.Eng.TakeLog()
			if err != nil {
				return fmt.Errorf("process: %w", err)
			}
			d.emit("process", Ev{"h": h, "proposer": proposer + 1, "replica": rep.name, "mut": "honest", "accept": res.Status == abci.ResponseProcessProposal_ACCEPT,
				"p": d.describe(rep.s.C, proposal, answer, true, true)})
			if answer != "VALID" { // let the replica see the well-behaved engine again before it finalises
				if _, err := rep.s.C.Process(mkBlock(rep.s.C, proposal, round)); err != nil {
					return err
				}
				rep.s.C.Eng.TakeLog()
			}
		}
		// ---- sometimes the round is not decided: nothing of it may persist
		if rare(7) && round < 2 {
			if err := d.committed("abandon", a.C); err != nil {
				return err
			}
			round++
			continue
		}
		break
	}

	// ---- finalize, possibly under an engine fault at the end of the block, possibly re-executed after a crash
	for attempt := 0; ; attempt++ {
		endNp, endFcu := "VALID", "VALID"
		if attempt == 0 && h > a.C.InitialHeight && ((d.opts.Mode == "faults" && rare(3)) || rare(20)) {
			kind := []string{sim.FaultError, sim.FaultInvalid, sim.FaultSyncing, sim.FaultAccepted, sim.FaultTimeout}[r.Intn(5)]
			site := []string{"newPayload", "fcu"}[r.Intn(2)]
			if site == "newPayload" {
				endNp = kind
			} else {
				endFcu = kind
			}
			oneShot := rare(2) // a transient fault: only the first such call of FinalizeBlock fails
			a.C.Eng.SetFault(func(m string, n int, attr bool) string {
				if m == site && (!oneShot || n == 0) {
					return kind
				}
				return ""
			})
		}
		prevApp := a.C.App.LastCommitID().Hash
		blkA := mkBlock(a.C, proposal, round)
		a.C.Eng.TakeLog()
		// ProcessProposal immediately before (as CometBFT does) resets the working state
		if pr, err := a.C.Process(blkA); err != nil || pr.Status != abci.ResponseProcessProposal_ACCEPT {
			// under a newPayload fault the node itself would not accept; finalise anyway (the block was decided by others)
			_ = pr
		}
		d.noise(a, 0)
		a.C.Eng.TakeLog()
		a.C.Eng.ResetCounters()
		res, ferr := a.C.Finalize(blkA)
		a.C.Eng.SetFault(nil)
		calls := a.C.Eng.TakeLog()
		desc := d.describe(a.C, proposal, "VALID", true, true)
		if ferr != nil {
			d.emit("finalize", Ev{"h": h, "proposer": proposer + 1, "p": desc, "msgOk": false, "modulesOk": d.lg.clean, "endNp": endNp, "endFcu": endFcu,
				"oog": false, "err": true, "errText": short(ferr.Error()), "engine": engineView(calls), "blockHash": project.H6(blkA.Hash(a.C.ChainID)), "byz": ""})
			// a real node dies here; it comes back with the committed state and the block is retried
			d.emit("crash", Ev{})
			if err := a.C.Restart(); err != nil {
				return err
			}
			if err := d.committed("restart", a.C); err != nil {
				return err
			}
			feedMempool()
			if endNp == "VALID" && endFcu == "VALID" {
				halts++
				if halts >= 2 { // FinalizeBlock fails on a healthy engine, again after the restart: the chain cannot go on
					return &HaltError{Height: h, Err: ferr}
				}
			}
			continue
		}
		msgOk := res.TxResults[0].Code == 0
		d.emit("finalize", Ev{"h": h, "proposer": proposer + 1, "p": desc, "msgOk": msgOk, "modulesOk": d.lg.clean, "endNp": endNp, "endFcu": endFcu,
			"oog": res.TxResults[0].Code == 11, "err": false, "errText": short(res.TxResults[0].Log), "engine": engineView(calls), "blockHash": project.H6(blkA.Hash(a.C.ChainID)), "byz": ""})
		key := hex.EncodeToString(prevApp) + "/" + hex.EncodeToString(blkA.Hash(a.C.ChainID)[:6])
		d.emit("exec", Ev{"key": key, "res": execDigest(res, calls, a.C), "replica": "A", "attempt": attempt, "detail": execDetail(res)})
		cometErr := a.C.ApplyUpdates(h, res.ValidatorUpdates)
		_ = cometErr

		// crash between FinalizeBlock and Commit: everything is re-executed from the committed state
		reexec := 0
		if d.opts.Mode == "determinism" {
			reexec = 2
		} else if rare(8) {
			reexec = 1
		}
		if h == a.C.InitialHeight { // before the first commit a crash means starting over from InitChain
			reexec = 0
		}
		for k := 0; k < reexec; k++ {
			d.emit("crash", Ev{})
			if err := a.C.Restart(); err != nil {
				return err
			}
			if err := d.committed("restart", a.C); err != nil {
				return err
			}
			if _, err := a.C.Process(blkA); err != nil {
				return err
			}
			a.C.Eng.TakeLog()
			res2, err := a.C.Finalize(blkA)
			if err != nil {
				// the same block on the same committed state, executed again on a healthy engine, fails: recorded as a failed
				// finalisation no fault explains and as a second, different result for the same execution key
				d.emit("finalize", Ev{"h": h, "proposer": proposer + 1, "p": desc, "msgOk": false, "modulesOk": d.lg.clean, "endNp": "VALID", "endFcu": "VALID",
					"oog": false, "err": true, "errText": short(err.Error()), "engine": engineView(a.C.Eng.TakeLog()), "blockHash": project.H6(blkA.Hash(a.C.ChainID)), "byz": ""})
				d.emit("exec", Ev{"key": key, "res": "error:" + short(err.Error()), "replica": "A", "attempt": attempt + k + 1, "detail": "re-execution failed"})
				return &HaltError{Height: h, Err: fmt.Errorf("re-execution failed: %w", err)}
			}
			calls2 := a.C.Eng.TakeLog()
			d.emit("finalize", Ev{"h": h, "proposer": proposer + 1, "p": desc, "msgOk": res2.TxResults[0].Code == 0, "modulesOk": d.lg.clean, "endNp": "VALID", "endFcu": "VALID",
				"oog": res2.TxResults[0].Code == 11, "err": false, "errText": "", "engine": engineView(calls2), "blockHash": project.H6(blkA.Hash(a.C.ChainID)), "byz": ""})
			d.emit("exec", Ev{"key": key, "res": execDigest(res2, calls2, a.C), "replica": "A", "attempt": attempt + k + 1, "detail": execDetail(res2)})
		}
		// the replica executes the same block fault-free
		blkB := mkBlock(b.C, proposal, round)
		d.noise(b, 1)
		b.C.Eng.TakeLog()
		resB, err := b.C.Finalize(blkB)
		if err != nil {
			// the replica cannot execute a block the proposer's node executed: the same block on the same committed state gave
			// two different results (C07), and the replica's chain stops
			d.emit("exec", Ev{"key": hex.EncodeToString(prevApp) + "/" + hex.EncodeToString(blkB.Hash(b.C.ChainID)[:6]), "res": "error:" + short(err.Error()), "replica": "B", "attempt": 0, "detail": "FinalizeBlock failed"})
			return &HaltError{Height: h, Err: fmt.Errorf("replica finalize: %w", err)}
		}
		d.emit("exec", Ev{"key": hex.EncodeToString(prevApp) + "/" + hex.EncodeToString(blkB.Hash(b.C.ChainID)[:6]), "res": execDigest(resB, b.C.Eng.TakeLog(), b.C), "replica": "B", "attempt": 0, "detail": execDetail(resB)})
		b.C.ApplyUpdates(h, resB.ValidatorUpdates)
		blkM := mkBlock(d.m.C, proposal, round)
		resM, err := d.m.C.Finalize(blkM)
		if err != nil {
			return fmt.Errorf("second replica finalize: %w", err)
		}
		d.m.C.ApplyUpdates(h, resM.ValidatorUpdates)
		if err := a.C.Commit(); err != nil {
			return err
		}
		if err := b.C.Commit(); err != nil {
			return err
		}
		if err := d.m.C.Commit(); err != nil {
			return err
		}
		a.C.Eng.TakeLog()
		b.C.Eng.TakeLog()
		d.m.C.Eng.TakeLog()
		if d.fill > 0 {
			d.fill -= len(proposal) - 1
			if d.fill < 0 {
				d.fill = 0
			}
		}
		if d.opts.Mode == "determinism" || d.run%3 == 0 {
			// replica A also serves queries (every gRPC query handler of the four modules) between blocks, replica B never does:
			// reading state must not change what the next block computes
			project.QueryAnswers(a.C, []uint64{1, 2, 3}, nil)
		}
		return d.committed("commit", a.C)
	}
}

// noise: a node also serves transaction simulations (the gRPC Simulate service) between the consensus calls, and what it is
// asked to simulate differs from node to node. Replica A simulates a voted message whose bitmap marks positions far beyond
// the group, replica B a genuine one, each right before it executes the block. A simulation is discarded: nothing of it -
// in the store or anywhere else in the process - may influence what the block computes (C07).
func (d *hoDriver) noise(s *Session, flavour int) {
	if d.opts.Mode != "determinism" || s.C.Height < s.C.InitialHeight || d.r.Intn(2) == 0 {
		return
	}
	vc, err := s.voteCtx()
	if err != nil {
		return
	}
	hash := make([]byte, 32)
	d.r.Read(hash)
	m := &bitcointypes.MsgNewBlockHashes{Proposer: s.member(vc.Proposer).Bech, StartBlockNumber: vc.Tip + 1, BlockHash: [][]byte{hash}}
	odd := s.OddBitmaps
	s.OddBitmaps = false
	m.Vote, _ = s.fullVote(vc, "NewBlockHashes", m.VoteSigDoc(), false)
	s.OddBitmaps = odd
	if flavour == 0 && len(m.Vote.Voters) >= 8 {
		for i := 1; i < len(m.Vote.Voters); i++ {
			m.Vote.Voters[i] = 0xff
		}
	}
	// the simulation runs on the mempool's view of the state, where the proposer's account sequence is ahead of the committed
	// one by the transactions waiting there: the first answer tells which sequence is expected
	prop := s.member(vc.Proposer)
	_, sq, _ := s.C.Account(prop.Addr)
	for try := 0; try < 2; try++ {
		tx, err := s.C.SignTx(prop.Priv, []sdk.Msg{m}, sim.SignOpts{Seq: &sq})
		if err != nil {
			return
		}
		_, _, serr := s.C.App.Simulate(tx)
		if serr == nil {
			return
		}
		i := strings.Index(serr.Error(), "account sequence mismatch, expected ")
		if i < 0 {
			return
		}
		var want uint64
		if _, err := fmt.Sscanf(serr.Error()[i:], "account sequence mismatch, expected %d", &want); err != nil {
			return
		}
		sq = want
	}
}

// mutatedProcess builds one mutated variant of the honest proposal and offers it to the replica.
func (d *hoDriver) mutatedProcess(h int64, round, proposer int, now time.Time, votes []sim.Vote, misb []abci.Misbehavior, honest [][]byte) error {
	b, r := d.m, d.r
	c := b.C
	pl, err := d.a.PayloadOf(honest[0])
	if err != nil {
		return err
	}
	clone := func() *goatmodtypes.ExecutionPayload {
		cp := *pl
		cp.Transactions = append([][]byte{}, pl.Transactions...)
		cp.Requests = append([][]byte{}, pl.Requests...)
		cp.ExtraData = append([]byte{}, pl.ExtraData...)
		return &cp
	}
	rehash := func(p *goatmodtypes.ExecutionPayload) {
		ed := goatmodtypes.PayloadToExecutableData(p)
		hh := sim.PayloadHash(ed, common.BytesToHash(p.BeaconRoot), p.Requests)
		p.BlockHash = hh[:]
	}
	blockTx := func(p *goatmodtypes.ExecutionPayload, signer int, o sim.SignOpts) []byte {
		// signed against the node's view of the account (replica state is identical)
		tx, err := c.BlockTx(signer, h, p, o)
		if err != nil {
			panic(err)
		}
		return tx
	}
	muts := []string{"reorder", "dupBlock", "dropBlock", "blockLater", "blockLaterValid", "blockChild", "blockChild", "blockPairLater", "blockPairFirst", "wrongParent", "wrongNumber", "wrongBeacon", "wrongProposer", "wrongRecipient",
		"recipientPadded", "recipientShort", "sysAdded", "sysRemoved", "sysAltered", "countByte", "reqGarbage", "gas0", "gas2", "futureTime", "engineInvalid", "engineSyncing", "tooMany", "empty",
		"garbageRest", "timeoutWrong", "badSig", "blob", "excessBlob", "gasFields", "paddedParent", "paddedBeacon", "lowGas", "lowGas", "reqTypeOnly"}
	mut := muts[r.Intn(len(muts))]
	// when system transactions of BOTH modules are due, often cut the list inside / right after the bridge's part
	nb, nl := 0, 0
	for i := 0; i < int(pl.ExtraData[0]) && i < len(pl.Transactions); i++ {
		if st, err := project.DecodeSysTx(pl.Transactions[i]); err == nil && (st.Kind == "reward" || st.Kind == "unlock") {
			nl++
		} else {
			nb++
		}
	}
	cutAt := -1
	if nb > 0 && nl > 0 && r.Intn(3) == 0 {
		mut, cutAt = "sysRemoved", nb+r.Intn(nl)
	}
	skew := false // a payload time stamp only a few seconds ahead: the block is executed again once the clock has passed it
	if d.forceMut != "" {
		mut, d.forceMut = d.forceMut, ""
		skew = mut == "futureTime"
	}
	txs := append([][]byte{}, honest...)
	rest := honest[1:]
	sigOk, restOk, answer := true, true, "VALID"
	switch mut {
	case "reorder":
		if len(txs) < 2 {
			return nil
		}
		txs[0], txs[1] = txs[1], txs[0]
	case "dupBlock", "blockLater":
		txs = append(txs, honest[0])
		restOk = false // the same transaction twice: the second one no longer has a valid account sequence
	case "blockChild":
		// a second execution-block message (in a later transaction, otherwise admissible) whose payload is a CHILD of the first
		// one: parent = the first payload, number + 1, the same beacon root, no system transactions. If it took effect the head
		// would move by two execution blocks in one consensus block.
		v := c.KR.Vals[proposer]
		_, seq, ok := c.Account(v.Addr)
		if !ok {
			return nil
		}
		child := clone()
		child.ParentHash = append([]byte{}, pl.BlockHash...)
		child.BlockNumber = pl.BlockNumber + 1
		child.Transactions = [][]byte{}
		if len(child.ExtraData) > 0 {
			child.ExtraData[0] = 0
		}
		rehash(child)
		sq := seq + 1
		bz, err := c.SignTx(v.Priv, []sdk.Msg{&goatmodtypes.MsgNewEthBlock{Proposer: sdk.MustBech32ifyAddressBytes("goat", v.Addr), Payload: child}}, sim.SignOpts{TimeoutHeight: uint64(h), Seq: &sq})
		if err != nil {
			return err
		}
		txs = append(txs, bz)
	case "blockLaterValid", "blockPairLater", "blockPairFirst":
		// further execution-block messages in transactions that are otherwise admissible (right signer, next sequence,
		// timeout = height): only the placement rule - first transaction, alone in it, only one - stands against them
		v := c.KR.Vals[proposer]
		_, seq, ok := c.Account(v.Addr)
		if !ok {
			return nil
		}
		mk := func(n int, sq uint64) []byte {
			var msgs []sdk.Msg
			for i := 0; i < n; i++ {
				msgs = append(msgs, &goatmodtypes.MsgNewEthBlock{Proposer: sdk.MustBech32ifyAddressBytes("goat", v.Addr), Payload: clone()})
			}
			bz, err := c.SignTx(v.Priv, msgs, sim.SignOpts{TimeoutHeight: uint64(h), Seq: &sq})
			if err != nil {
				panic(err)
			}
			return bz
		}
		switch mut {
		case "blockLaterValid":
			txs = append(txs, mk(1, seq+1))
		case "blockPairLater":
			txs = append(txs, mk(2, seq+1))
		case "blockPairFirst":
			txs = append([][]byte{mk(2, seq)}, rest...)
		}
	case "dropBlock":
		txs = txs[1:]
		if len(txs) == 0 {
			mut = "empty"
		}
	case "empty":
		txs = nil
	case "wrongParent":
		p := clone()
		p.ParentHash = hash32([]byte("other parent"))
		rehash(p)
		txs = append([][]byte{blockTx(p, proposer, sim.SignOpts{})}, rest...)
	case "wrongNumber":
		p := clone()
		p.BlockNumber += uint64(1 + r.Intn(2))
		rehash(p)
		txs = append([][]byte{blockTx(p, proposer, sim.SignOpts{})}, rest...)
	case "wrongBeacon":
		p := clone()
		p.BeaconRoot = hash32([]byte("other beacon"))
		rehash(p)
		txs = append([][]byte{blockTx(p, proposer, sim.SignOpts{})}, rest...)
	case "wrongProposer": // authored (and signed) by another validator than the height's proposer
		other := 1 + r.Intn(len(c.KR.Vals)-1)
		if _, _, ok := c.Account(c.KR.Vals[other].Addr); !ok {
			return nil
		}
		p := clone()
		p.FeeRecipient = c.KR.Vals[other].Addr
		rehash(p)
		txs = append([][]byte{blockTx(p, other, sim.SignOpts{})}, rest...)
	case "wrongRecipient":
		p := clone()
		p.FeeRecipient = hash32([]byte("someone"))[:20]
		rehash(p)
		txs = append([][]byte{blockTx(p, proposer, sim.SignOpts{})}, rest...)
	case "recipientPadded", "recipientShort": // not the proposer's 20 bytes, although an address-sized view of it may look like them
		p := clone()
		if mut == "recipientPadded" {
			pad := make([]byte, 12)
			r.Read(pad)
			p.FeeRecipient = append(pad, c.KR.Vals[proposer].Addr...)
		} else {
			p.FeeRecipient = append([]byte{}, c.KR.Vals[proposer].Addr[1:]...)
		}
		rehash(p)
		txs = append([][]byte{blockTx(p, proposer, sim.SignOpts{})}, rest...)
	case "sysAdded":
		p := clone()
		// a made-up system transaction in front
		fake := append([][]byte{}, pl.Transactions...)
		var first []byte
		if len(fake) > 0 && int(pl.ExtraData[0]) > 0 {
			first = fake[0]
		} else {
			return nil
		}
		p.Transactions = append([][]byte{first}, fake...)
		p.ExtraData[0]++
		rehash(p)
		txs = append([][]byte{blockTx(p, proposer, sim.SignOpts{})}, rest...)
	case "sysRemoved":
		if int(pl.ExtraData[0]) == 0 {
			return nil
		}
		p := clone()
		n := int(pl.ExtraData[0])
		variant := r.Intn(4)
		if cutAt >= 0 {
			variant = 4
		}
		switch variant {
		case 4: // all of the bridge's, but fewer than bridge + locking transactions in the whole list (count byte: what is there / what is due)
			p.Transactions = p.Transactions[:cutAt]
			if r.Intn(2) == 0 {
				p.ExtraData[0] = byte(cutAt)
			}
		case 0: // the first system transaction is missing
			p.Transactions = p.Transactions[1:]
			p.ExtraData[0]--
		case 1: // the last one is missing (the bridge's are all there, the locking module's are short)
			p.Transactions = append(append([][]byte{}, p.Transactions[:n-1]...), p.Transactions[n:]...)
			p.ExtraData[0]--
		case 2: // the whole transaction list stops after k < n system transactions, and the count says so
			k := r.Intn(n)
			p.Transactions = p.Transactions[:k]
			p.ExtraData[0] = byte(k)
		default: // ... and the count does not
			p.Transactions = p.Transactions[:r.Intn(n)]
		}
		rehash(p)
		txs = append([][]byte{blockTx(p, proposer, sim.SignOpts{})}, rest...)
	case "sysAltered":
		if int(pl.ExtraData[0]) < 2 {
			return nil
		}
		p := clone()
		p.Transactions[0], p.Transactions[1] = p.Transactions[1], p.Transactions[0]
		rehash(p)
		txs = append([][]byte{blockTx(p, proposer, sim.SignOpts{})}, rest...)
	case "countByte":
		p := clone()
		p.ExtraData[0] += byte(1 + r.Intn(3))
		rehash(p)
		txs = append([][]byte{blockTx(p, proposer, sim.SignOpts{})}, rest...)
	case "reqTypeOnly":
		// one more request entry that consists of a type byte only ("no request of that type"): decodable, harmless - and part of the
		// payload: what the engine is told must contain it (the block hash covers the request list)
		p := clone()
		p.Requests = append(p.Requests, []byte{[]byte{goattypes.WithdrawalRequestType, goattypes.ReplaceByFeeRequestType, goattypes.Cancel1RequestType}[r.Intn(3)]})
		rehash(p)
		txs = append([][]byte{blockTx(p, proposer, sim.SignOpts{})}, rest...)
	case "reqGarbage":
		p := clone()
		p.Requests = append(p.Requests, []byte{0x63, 1, 2, 3})
		rehash(p)
		txs = append([][]byte{blockTx(p, proposer, sim.SignOpts{})}, rest...)
	case "gas0", "gas2":
		p := clone()
		var keep [][]byte
		for _, rq := range p.Requests {
			if len(rq) > 0 && rq[0] == goattypes.GasRequestType {
				if mut == "gas2" {
					keep = append(keep, append(append([]byte{}, rq...), rq[1:]...))
				}
				continue
			}
			keep = append(keep, rq)
		}
		p.Requests = keep
		rehash(p)
		txs = append([][]byte{blockTx(p, proposer, sim.SignOpts{})}, rest...)
	case "futureTime":
		p := clone()
		p.Timestamp = uint64(time.Now().Unix()) + 3600
		if skew {
			p.Timestamp = uint64(time.Now().Unix()) + 2
		}
		rehash(p)
		txs = append([][]byte{blockTx(p, proposer, sim.SignOpts{})}, rest...)
	case "blob":
		p := clone()
		p.BlobGasUsed = []uint64{1, 2, 65536, 131071, 131072, 131073, 262144}[r.Intn(7)] // any blob gas at all, not only whole blobs
		rehash(p)
		txs = append([][]byte{blockTx(p, proposer, sim.SignOpts{})}, rest...)
	case "paddedParent", "paddedBeacon":
		// the right 32 bytes with extra bytes in front: not the recorded parent hash / beacon root (although a conversion that keeps
		// the last 32 bytes maps it to them, and the block hash the engine checks is the honest one)
		p := clone()
		if mut == "paddedParent" {
			p.ParentHash = append([]byte{0xde, 0xad}, p.ParentHash...)
		} else {
			p.BeaconRoot = append([]byte{0x99}, p.BeaconRoot...)
		}
		rehash(p)
		txs = append([][]byte{blockTx(p, proposer, sim.SignOpts{})}, rest...)
	case "excessBlob", "gasFields":
		// unusual but admissible header values (no blob gas USED): the proposal is acceptable if the engine says VALID, and what
		// the engine is told at the end of the block must be exactly this payload, field by field
		p := clone()
		if mut == "excessBlob" {
			p.ExcessBlobGas = []uint64{1, 131072, 393216}[r.Intn(3)]
		} else {
			p.GasLimit += uint64(1 + r.Intn(1000))
			p.GasUsed = uint64(r.Intn(100000))
		}
		rehash(p)
		txs = append([][]byte{blockTx(p, proposer, sim.SignOpts{})}, rest...)
	case "engineInvalid", "engineSyncing":
		kind := sim.FaultInvalid
		if mut == "engineSyncing" {
			kind = sim.FaultSyncing
		}
		answer = kind
		c.Eng.SetFault(func(m string, n int, attr bool) string {
			if m == "newPayload" {
				return kind
			}
			return ""
		})
	case "tooMany":
		for len(txs) < 17 {
			txs = append(txs, honest[0])
		}
		restOk = false
	case "garbageRest":
		txs = append(txs, []byte{0xde, 0xad, 0xbe, 0xef})
		restOk = false
	case "lowGas":
		// the proposer chooses the gas limit of the execution-block transaction (the honest one takes 1e8); ProcessProposal only
		// runs the admission checks on it. With a limit around what the transaction needs it runs out of gas somewhere inside the
		// message handler (or already during admission): whatever the handler did up to then must leave no trace anywhere
		if h <= c.InitialHeight {
			return nil
		}
		// what the honest transaction needs is measured by a dry run on this replica (executed, never committed)
		dry := &sim.Block{Height: h, Round: round, Time: now, Proposer: proposer, Votes: votes, Misbehavior: misb, Txs: honest}
		need := uint64(0)
		if _, err := c.Process(dry); err != nil {
			return err
		}
		if res, err := c.Finalize(dry); err == nil && len(res.TxResults) > 0 && res.TxResults[0].Code == 0 {
			need = uint64(res.TxResults[0].GasUsed)
		}
		c.Eng.TakeLog()
		if err := c.Restart(); err != nil {
			return err
		}
		if need < 20_000 {
			return nil
		}
		cut := []uint64{1, 1, 300, 1000, 2000, 3000, 5000, 10000, need / 2}[r.Intn(9)]
		txs = append([][]byte{blockTx(clone(), proposer, sim.SignOpts{GasLimit: need - cut})}, rest...)
	case "timeoutWrong":
		txs = append([][]byte{blockTx(clone(), proposer, sim.SignOpts{TimeoutHeight: uint64(h + 1)})}, rest...)
	case "badSig":
		txs = append([][]byte{blockTx(clone(), proposer, sim.SignOpts{BadSig: true})}, rest...)
		sigOk = false
	}
	blk := &sim.Block{Height: h, Round: round, Time: now, Proposer: proposer, Votes: votes, Misbehavior: misb, Txs: txs}
	accept := false
	if len(txs) == 0 {
		// CometBFT never proposes an empty transaction list to this application (the block message is mandatory)
		res, err := c.Process(blk)
		accept = err == nil && res.Status == abci.ResponseProcessProposal_ACCEPT
	} else {
		res, err := c.Process(blk)
		if err != nil {
			return err
		}
		accept = res.Status == abci.ResponseProcessProposal_ACCEPT
	}
	c.Eng.SetFault(nil)
	c.Eng.TakeLog()
	if !skew { // (a time stamp 2 s ahead: "in the future" may stop being true between the call and its description - not recorded)
		d.emit("process", Ev{"h": h, "proposer": proposer + 1, "replica": "B", "mut": mut, "accept": accept, "p": d.describe(c, txs, answer, sigOk, restOk)})
	}
	// A block other validators decided although this node would have refused it: FinalizeBlock must still apply its own
	// checks to the execution-block message (the head moves only by valid children, C09) and must not fail. The replica
	// then crashes before Commit, so nothing of it persists.
	byzFinal := map[string]bool{"wrongParent": true, "wrongNumber": true, "wrongBeacon": true, "wrongProposer": true, "wrongRecipient": true,
		"recipientPadded": true, "recipientShort": true, "sysAdded": true, "sysRemoved": true, "sysAltered": true, "countByte": true,
		"reqGarbage": true, "gas0": true, "gas2": true, "futureTime": true, "blob": true, "timeoutWrong": true,
		"blockChild": true, "blockLaterValid": true, "blockPairLater": true, "excessBlob": true, "gasFields": true, "paddedParent": true, "paddedBeacon": true, "lowGas": true, "reqTypeOnly": true}
	if byzFinal[mut] && h > c.InitialHeight && (skew || mut == "lowGas" || r.Intn(2) == 0) {
		prevApp := c.App.LastCommitID().Hash
		txsDigest := sha256.New()
		for _, t := range txs {
			txsDigest.Write(hash32(t))
		}
		// determinism (C07) holds for every block, also one the node would not have voted for: same state, same block -> same result
		execKey := hex.EncodeToString(prevApp) + "/" + hex.EncodeToString(blk.Hash(c.ChainID)[:6]) + "/" + hex.EncodeToString(txsDigest.Sum(nil)[:6])
		ownHash := ""
		if plOwn, err := d.a.PayloadOf(txs[0]); err == nil {
			ownHash = hex.EncodeToString(plOwn.BlockHash[:6])
		}
		c.Eng.TakeLog()
		c.Eng.ResetCounters()
		res, ferr := c.Finalize(blk)
		calls := c.Eng.TakeLog()
		if ferr == nil {
			d.emit("exec", Ev{"key": execKey, "res": execDigestSet(res, calls, c, ownHash), "replica": "M", "attempt": 0, "detail": execDetail(res)})
		}
		desc := d.describe(c, txs, "VALID", sigOk, restOk)
		modulesOk := d.lg.clean && mut != "gas0" && mut != "gas2" && mut != "reqGarbage"
		if ferr != nil {
			d.emit("finalize", Ev{"h": h, "proposer": proposer + 1, "p": desc, "msgOk": false, "modulesOk": modulesOk, "endNp": "VALID", "endFcu": "VALID",
				"oog": false, "err": true, "errText": short(ferr.Error()), "engine": engineView(calls), "blockHash": project.H6(blk.Hash(c.ChainID)), "byz": mut})
		} else {
			d.emit("finalize", Ev{"h": h, "proposer": proposer + 1, "p": desc, "msgOk": res.TxResults[0].Code == 0, "modulesOk": modulesOk, "endNp": "VALID", "endFcu": "VALID",
				"oog": res.TxResults[0].Code == 11, "err": false, "errText": short(res.TxResults[0].Log), "engine": engineView(calls), "blockHash": project.H6(blk.Hash(c.ChainID)), "byz": mut})
		}
		d.emit("crash", Ev{})
		if err := c.Restart(); err != nil {
			return err
		}
		if err := d.committed("restart", c); err != nil {
			return err
		}
		if ferr == nil && (skew || r.Intn(3) == 0) {
			// the same block executed again on the same committed state (after the restart; for a skewed time stamp: once the
			// wall clock has passed it) must give the same result
			if skew {
				if pl2, err := d.a.PayloadOf(txs[0]); err == nil {
					for uint64(time.Now().Unix()) <= pl2.Timestamp {
						time.Sleep(200 * time.Millisecond)
					}
				}
			}
			c.Eng.TakeLog()
			c.Eng.ResetCounters()
			res2, ferr2 := c.Finalize(blk)
			calls2 := c.Eng.TakeLog()
			if ferr2 == nil {
				d.emit("exec", Ev{"key": execKey, "res": execDigestSet(res2, calls2, c, ownHash), "replica": "M", "attempt": 1, "detail": execDetail(res2)})
			}
			d.emit("crash", Ev{})
			if err := c.Restart(); err != nil {
				return err
			}
			if err := d.committed("restart", c); err != nil {
				return err
			}
		}
	}
	return nil
}

var _ = bytes.Equal
