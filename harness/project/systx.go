package project

import (
	"encoding/hex"
	"fmt"
	"math/big"

	ethtypes "github.com/ethereum/go-ethereum/core/types"
	"github.com/ethereum/go-ethereum/core/types/goattypes"
	"github.com/ethereum/go-ethereum/rlp"
)

// SysTx is a decoded system transaction handed to the execution layer.
type SysTx struct {
	Kind   string `json:"kind"` // newblock | deposit | paid | cancel2 | reward | unlock | bad
	Nonce  int64  `json:"nonce"`
	ID     int64  `json:"id"`
	Token  int    `json:"token"`
	Amount int64  `json:"amount"`
	Tax    int64  `json:"tax"`
	Goat   int64  `json:"goat"`
	Gas    int64  `json:"gas"`
	Txid   string `json:"txid"`
	TxOut  int64  `json:"txout"`
	Target string `json:"target"`
	Hash   string `json:"hash"`
	Big    bool   `json:"big"`
}

var satoshi = big.NewInt(1e10)

func smallBig(b *big.Int, big_ *bool) int64 {
	if b == nil {
		return 0
	}
	if !b.IsInt64() || b.Int64() > 2_100_000_000 { // TLC's integers are 32-bit
		*big_ = true
		return 0
	}
	return b.Int64()
}

func sats(b *big.Int, big_ *bool) int64 {
	q, r := new(big.Int).QuoRem(b, satoshi, new(big.Int))
	if r.Sign() != 0 {
		*big_ = true
	}
	return smallBig(q, big_)
}

// DecodeSysTx decodes one raw execution-layer transaction if it is a goat system transaction.
func DecodeSysTx(raw []byte) (SysTx, error) {
	if len(raw) == 0 || raw[0] != ethtypes.GoatTxType {
		return SysTx{Kind: "bad"}, fmt.Errorf("not a goat tx")
	}
	var gt ethtypes.GoatTx
	if err := rlp.DecodeBytes(raw[1:], &gt); err != nil {
		return SysTx{Kind: "bad"}, err
	}
	inner, err := goattypes.DecodeTx(gt.Module, gt.Action, gt.Data)
	if err != nil {
		return SysTx{Kind: "bad"}, err
	}
	out := SysTx{Nonce: int64(gt.Nonce)}
	switch t := inner.(type) {
	case *goattypes.NewBtcBlockTx:
		out.Kind, out.Hash = "newblock", hex.EncodeToString(t.Hash[:6])
	case *goattypes.DepositTx:
		out.Kind, out.Txid, out.TxOut, out.Target = "deposit", hex.EncodeToString(t.Txid[:6]), int64(t.TxOut), hex.EncodeToString(t.Target[:])
		out.Amount, out.Tax = sats(t.Amount, &out.Big), sats(t.Tax, &out.Big)
	case *goattypes.PaidTx:
		out.Kind, out.ID, out.Txid, out.TxOut = "paid", smallBig(t.Id, &out.Big), hex.EncodeToString(t.Txid[:6]), int64(t.TxOut)
		out.Amount = sats(t.Amount, &out.Big)
	case *goattypes.Cancel2Tx:
		out.Kind, out.ID = "cancel2", smallBig(t.Id, &out.Big)
	case *goattypes.DistributeRewardTx:
		out.Kind, out.ID = "reward", int64(t.Id)
		out.Goat, out.Gas = smallBig(t.Goat, &out.Big), smallBig(t.GasReward, &out.Big)
	case *goattypes.CompleteUnlockTx:
		out.Kind, out.ID, out.Token = "unlock", int64(t.Id), TokenIDByAddr(t.Token[:])
		out.Amount = smallBig(t.Amount, &out.Big)
	default:
		out.Kind = "bad"
	}
	return out, nil
}

// DecodeSysTxs decodes the leading n system transactions of a payload.
func DecodeSysTxs(txs [][]byte, n int) []SysTx {
	out := []SysTx{}
	for i := 0; i < n && i < len(txs); i++ {
		t, _ := DecodeSysTx(txs[i])
		out = append(out, t)
	}
	return out
}
