package project

import (
	"bytes"
	"sort"
	"time"

	"cosmossdk.io/collections"
	"cosmossdk.io/math"
	sdk "github.com/cosmos/cosmos-sdk/types"
	"github.com/ethereum/go-ethereum/common"
	"github.com/ethereum/go-ethereum/core/types/goattypes"
	lockingtypes "github.com/goatnetwork/goat/x/locking/types"
	"goatverif/sim"
)

// TokenAddrs are the execution-layer token addresses the drivers use, in denom order (model ids 1..4).
var TokenAddrs = []common.Address{
	{},                          // "btc"
	goattypes.GoatTokenContract, // "goat"
	common.HexToAddress("0x00000000000000000000000000000000000000aa"), // "tkn:...aa"
	common.HexToAddress("0x00000000000000000000000000000000000000bb"), // "tkn:...bb"
}

func TokenID(denom string) int {
	for i, a := range TokenAddrs {
		if lockingtypes.TokenDenom(a) == denom {
			return i + 1
		}
	}
	return 0
}

func TokenIDByAddr(addr []byte) int {
	for i, a := range TokenAddrs {
		if bytes.Equal(a.Bytes(), addr) {
			return i + 1
		}
	}
	return 0
}

type LVal struct {
	Exists      bool    `json:"exists"`
	Status      string  `json:"status"`
	Power       int64   `json:"power"`
	Locking     []int64 `json:"locking"`
	Reward      int64   `json:"reward"`
	GasReward   int64   `json:"gasReward"`
	Offset      int64   `json:"offset"`
	Missed      int64   `json:"missed"`
	JailedUntil int64   `json:"jailedUntil"`
}

type LToken struct {
	Exists    bool  `json:"exists"`
	Weight    int64 `json:"weight"`
	Threshold int64 `json:"threshold"`
}

type LUnlock struct {
	Time   int64 `json:"time"`
	ID     int64 `json:"id"`
	Token  int   `json:"token"`
	Amount int64 `json:"amount"`
}

type LReward struct {
	ID   int64 `json:"id"`
	Goat int64 `json:"goat"`
	Gas  int64 `json:"gas"`
}

type LockingState struct {
	Val     []LVal     `json:"val"`
	Tokens  []LToken   `json:"tokens"`
	Thr     []int64    `json:"thr"`
	LockIdx [][3]int64 `json:"lockIdx"` // [token, val, amount]
	Ranking [][2]int64 `json:"ranking"` // [power, val]
	ValSet  []int64    `json:"valSet"`  // power or -1
	Slashed []int64    `json:"slashed"`
	Pool    struct {
		Goat   int64 `json:"goat"`
		Gas    int64 `json:"gas"`
		Remain int64 `json:"remain"`
	} `json:"pool"`
	UnlockQ []LUnlock `json:"unlockQ"`
	QRew    []LReward `json:"qRewards"`
	QUnl    []LUnlock `json:"qUnlocks"`
	Nonce   int64     `json:"nonce"`
	HasAcc  []int     `json:"hasAcc"`
	Unknown int       `json:"unknown"`
	Big     int       `json:"big"` // values that do not fit the model's integers
}

func (st *LockingState) small(i math.Int) int64 {
	if i.IsNil() {
		return 0
	}
	if !i.IsInt64() || i.Int64() > 1<<30 || i.Int64() < -(1<<30) {
		st.Big++
		return 0
	}
	return i.Int64()
}

func (st *LockingState) smallU(u uint64) int64 {
	if u > 1<<30 {
		st.Big++
		return 0
	}
	return int64(u)
}

// tick converts a stored time to model ticks; the zero time is tick 0.
func tick(c *sim.Chain, t time.Time) int64 {
	if t.IsZero() || t.Before(c.Genesis) {
		return 0
	}
	return c.TickOf(t)
}

var lstatus = map[lockingtypes.ValidatorStatus]string{
	lockingtypes.Pending: "Pending", lockingtypes.Active: "Active", lockingtypes.Tombstoned: "Tombstoned",
	lockingtypes.Downgrade: "Downgrade", lockingtypes.Inactive: "Inactive", lockingtypes.Unspecified: "Unspecified",
}

func (st *LockingState) unlocks(c *sim.Chain, t int64, us []*lockingtypes.Unlock) []LUnlock {
	out := []LUnlock{}
	for _, u := range us {
		tid := TokenIDByAddr(u.Token)
		if tid == 0 {
			st.Unknown++
		}
		out = append(out, LUnlock{Time: t, ID: st.smallU(u.Id), Token: tid, Amount: st.small(u.Amount)})
	}
	return out
}

// Locking projects x/locking.
func Locking(c *sim.Chain) (*LockingState, error) {
	ctx := c.ReadCtx()
	k := c.App.LockingKeeper
	kr := c.KR
	nT := len(TokenAddrs)
	st := &LockingState{}
	st.Val = make([]LVal, len(kr.Vals))
	for i := range st.Val {
		st.Val[i] = LVal{Status: "Pending", Locking: make([]int64, nT)}
	}
	err := k.Validators.Walk(ctx, nil, func(addr sdk.ConsAddress, v lockingtypes.Validator) (bool, error) {
		id := kr.ValID(addr)
		if id == 0 {
			st.Unknown++
			return false, nil
		}
		lv := LVal{Exists: true, Status: lstatus[v.Status], Power: st.smallU(v.Power), Locking: make([]int64, nT),
			Reward: st.small(v.Reward), GasReward: st.small(v.GasReward), Offset: v.SigningInfo.Offset, Missed: v.SigningInfo.Missed,
			JailedUntil: tick(c, v.JailedUntil)}
		for _, coin := range v.Locking {
			tid := TokenID(coin.Denom)
			if tid == 0 {
				st.Unknown++
				continue
			}
			lv.Locking[tid-1] = st.small(coin.Amount)
		}
		if !bytes.Equal(v.Pubkey, kr.Vals[id-1].Pub.Key) {
			st.Unknown++
		}
		st.Val[id-1] = lv
		return false, nil
	})
	if err != nil {
		return nil, err
	}
	st.Tokens = make([]LToken, nT)
	err = k.Tokens.Walk(ctx, nil, func(denom string, t lockingtypes.Token) (bool, error) {
		tid := TokenID(denom)
		if tid == 0 {
			st.Unknown++
			return false, nil
		}
		st.Tokens[tid-1] = LToken{Exists: true, Weight: st.smallU(t.Weight), Threshold: st.small(t.Threshold)}
		return false, nil
	})
	if err != nil {
		return nil, err
	}
	st.Thr = make([]int64, nT)
	if thr, err := k.Threshold.Get(ctx); err == nil {
		for _, coin := range thr.List {
			if tid := TokenID(coin.Denom); tid != 0 {
				st.Thr[tid-1] = st.small(coin.Amount)
			} else {
				st.Unknown++
			}
		}
	}
	st.LockIdx = [][3]int64{}
	err = k.Locking.Walk(ctx, nil, func(key collections.Pair[string, sdk.ConsAddress], amt math.Int) (bool, error) {
		tid, vid := TokenID(key.K1()), kr.ValID(key.K2())
		if tid == 0 || vid == 0 {
			st.Unknown++
			return false, nil
		}
		st.LockIdx = append(st.LockIdx, [3]int64{int64(tid), int64(vid), st.small(amt)})
		return false, nil
	})
	if err != nil {
		return nil, err
	}
	st.Ranking = [][2]int64{}
	err = k.PowerRanking.Walk(ctx, nil, func(key collections.Pair[uint64, sdk.ConsAddress]) (bool, error) {
		vid := kr.ValID(key.K2())
		if vid == 0 {
			st.Unknown++
			return false, nil
		}
		st.Ranking = append(st.Ranking, [2]int64{st.smallU(key.K1()), int64(vid)})
		return false, nil
	})
	if err != nil {
		return nil, err
	}
	st.ValSet = make([]int64, len(kr.Vals))
	for i := range st.ValSet {
		st.ValSet[i] = -1
	}
	err = k.ValidatorSet.Walk(ctx, nil, func(addr sdk.ConsAddress, p uint64) (bool, error) {
		vid := kr.ValID(addr)
		if vid == 0 {
			st.Unknown++
			return false, nil
		}
		st.ValSet[vid-1] = st.smallU(p)
		return false, nil
	})
	if err != nil {
		return nil, err
	}
	st.Slashed = make([]int64, nT)
	err = k.Slashed.Walk(ctx, nil, func(denom string, amt math.Int) (bool, error) {
		if tid := TokenID(denom); tid != 0 {
			st.Slashed[tid-1] = st.small(amt)
		} else {
			st.Unknown++
		}
		return false, nil
	})
	if err != nil {
		return nil, err
	}
	pool, err := k.RewardPool.Get(ctx)
	if err != nil {
		return nil, err
	}
	st.Pool.Goat, st.Pool.Gas, st.Pool.Remain = st.small(pool.Goat), st.small(pool.Gas), st.small(pool.Remain)
	st.UnlockQ = []LUnlock{}
	type qe struct {
		t  time.Time
		us []*lockingtypes.Unlock
	}
	var qes []qe
	err = k.UnlockQueue.Walk(ctx, nil, func(t time.Time, us lockingtypes.Unlocks) (bool, error) {
		qes = append(qes, qe{t, us.Unlocks})
		return false, nil
	})
	if err != nil {
		return nil, err
	}
	sort.SliceStable(qes, func(a, b int) bool { return qes[a].t.Before(qes[b].t) })
	for _, e := range qes {
		st.UnlockQ = append(st.UnlockQ, st.unlocks(c, tick(c, e.t), e.us)...)
	}
	q, err := k.EthTxQueue.Get(ctx)
	if err != nil {
		return nil, err
	}
	st.QRew = []LReward{}
	for _, r := range q.Rewards {
		st.QRew = append(st.QRew, LReward{ID: st.smallU(r.Id), Goat: st.small(r.Goat), Gas: st.small(r.Gas)})
	}
	st.QUnl = st.unlocks(c, 0, q.Unlocks)
	n, err := k.EthTxNonce.Peek(ctx)
	if err != nil {
		return nil, err
	}
	st.Nonce = st.smallU(n)
	st.HasAcc = []int{}
	for i, v := range kr.Vals {
		if c.App.AccountKeeper.HasAccount(ctx, sdk.AccAddress(v.Addr)) {
			st.HasAcc = append(st.HasAcc, i+1)
		}
	}
	return st, nil
}
