package project

import (
	"encoding/hex"
	"sort"

	"cosmossdk.io/collections"
	bitcointypes "github.com/goatnetwork/goat/x/bitcoin/types"
	relayertypes "github.com/goatnetwork/goat/x/relayer/types"
	"goatverif/sim"
)

func H6(b []byte) string {
	if len(b) > 6 {
		b = b[:6]
	}
	return hex.EncodeToString(b)
}

// BigVal stands for "some 64-bit value above the model's integers" (parameters may legitimately hold such values).
const BigVal = 2_000_000_000

func Clamp(u uint64) int64 {
	if u > BigVal {
		return BigVal
	}
	return int64(u)
}

func KeyID(pk *relayertypes.PublicKey) string {
	return hex.EncodeToString(relayertypes.EncodePublicKey(pk)[:5])
}

type BWd struct {
	ID         int64  `json:"id"`
	Status     string `json:"status"`
	Addr       string `json:"addr"` // the address string itself (short) - compared through the interned script id by the driver
	Amount     int64  `json:"amount"`
	MaxPrice   int64  `json:"maxPrice"`
	HasReceipt bool   `json:"hasReceipt"`
	RTxid      string `json:"rTxid"`
	RTxout     int64  `json:"rTxout"`
	RAmount    int64  `json:"rAmount"`
}

type BProc struct {
	Pid     int64     `json:"pid"`
	Txids   []string  `json:"txids"`
	Outputs [][]int64 `json:"outputs"`
	IDs     []int64   `json:"ids"`
	Fee     int64     `json:"fee"`
}

type BDeposit struct {
	Txid   string `json:"txid"`
	Vout   int64  `json:"vout"`
	Evm    string `json:"evm"`
	Amount int64  `json:"amount"`
	Tax    int64  `json:"tax"`
}

type BPaid struct {
	ID     int64  `json:"id"`
	Txid   string `json:"txid"`
	Txout  int64  `json:"txout"`
	Amount int64  `json:"amount"`
}

type BridgeState struct {
	Tip       int64           `json:"tip"`
	Hashes    []string        `json:"hashes"` // heights Base..Tip
	Base      int64           `json:"base"`
	Pubkeys   []string        `json:"pubkeys"`
	CurKey    string          `json:"curKey"`
	Deposited [][]interface{} `json:"deposited"`
	Wd        []BWd           `json:"wd"`
	Proc      []BProc         `json:"proc"`
	NextPid   int64           `json:"nextPid"`
	Cursor    int64           `json:"cursor"`
	QDeposits []BDeposit      `json:"qDeposits"`
	QPaid     []BPaid         `json:"qPaid"`
	QRejected []int64         `json:"qRejected"`
	Nonce     int64           `json:"nonce"`
	Params    struct {
		MinDeposit int64  `json:"minDeposit"`
		TaxRate    int64  `json:"taxRate"`
		MaxTax     int64  `json:"maxTax"`
		Conf       int64  `json:"conf"`
		Network    string `json:"network"`
	} `json:"params"`
	Big int `json:"big"`
}

var wdStatus = map[bitcointypes.WithdrawalStatus]string{
	bitcointypes.WITHDRAWAL_STATUS_UNSPECIFIED: "unspecified", bitcointypes.WITHDRAWAL_STATUS_PENDING: "pending",
	bitcointypes.WITHDRAWAL_STATUS_PROCESSING: "processing", bitcointypes.WITHDRAWAL_STATUS_CANCELING: "canceling",
	bitcointypes.WITHDRAWAL_STATUS_CANCELED: "canceled", bitcointypes.WITHDRAWAL_STATUS_PAID: "paid",
}

func (st *BridgeState) sm(u uint64) int64 {
	if u > 2_100_000_000 {
		st.Big++
		return 0
	}
	return int64(u)
}

// Bridge projects x/bitcoin. addrID maps a withdrawal address string to the interned id the driver uses.
func Bridge(c *sim.Chain, addrID func(string) string) (*BridgeState, error) {
	ctx := c.ReadCtx()
	k := c.App.BitcoinKeeper
	st := &BridgeState{}
	tip, err := k.BlockTip.Peek(ctx)
	if err != nil {
		return nil, err
	}
	st.Tip = st.sm(tip)
	st.Hashes = []string{}
	first := true
	err = k.BlockHashes.Walk(ctx, nil, func(h uint64, hash []byte) (bool, error) {
		if first {
			st.Base = st.sm(h)
			first = false
		}
		st.Hashes = append(st.Hashes, H6(hash))
		return false, nil
	})
	if err != nil {
		return nil, err
	}
	st.Pubkeys = []string{}
	_ = c.App.RelayerKeeper.Pubkeys.Walk(ctx, nil, func(raw []byte) (bool, error) {
		st.Pubkeys = append(st.Pubkeys, hex.EncodeToString(raw[:5]))
		return false, nil
	})
	sort.Strings(st.Pubkeys)
	if pk, err := k.Pubkey.Get(ctx); err == nil {
		st.CurKey = KeyID(&pk)
	}
	st.Deposited = [][]interface{}{}
	err = k.Deposited.Walk(ctx, nil, func(key collections.Pair[[]byte, uint32], _ uint64) (bool, error) {
		st.Deposited = append(st.Deposited, []interface{}{H6(key.K1()), int64(key.K2())})
		return false, nil
	})
	if err != nil {
		return nil, err
	}
	st.Wd = []BWd{}
	err = k.Withdrawals.Walk(ctx, nil, func(id uint64, w bitcointypes.Withdrawal) (bool, error) {
		bw := BWd{ID: st.sm(id), Status: wdStatus[w.Status], Addr: addrID(w.Address), Amount: st.sm(w.RequestAmount), MaxPrice: st.sm(w.MaxTxPrice)}
		if w.Receipt != nil {
			bw.HasReceipt, bw.RTxid, bw.RTxout, bw.RAmount = true, H6(w.Receipt.Txid), int64(w.Receipt.Txout), st.sm(w.Receipt.Amount)
		}
		st.Wd = append(st.Wd, bw)
		return false, nil
	})
	if err != nil {
		return nil, err
	}
	st.Proc = []BProc{}
	err = k.Processing.Walk(ctx, nil, func(pid uint64, p bitcointypes.Processing) (bool, error) {
		bp := BProc{Pid: st.sm(pid), Fee: st.sm(p.Fee), Txids: []string{}, Outputs: [][]int64{}, IDs: []int64{}}
		for _, t := range p.Txid {
			bp.Txids = append(bp.Txids, H6(t))
		}
		for _, o := range p.Output {
			vs := []int64{}
			for _, v := range o.Values {
				vs = append(vs, st.sm(v))
			}
			bp.Outputs = append(bp.Outputs, vs)
		}
		for _, id := range p.Withdrawals {
			bp.IDs = append(bp.IDs, st.sm(id))
		}
		st.Proc = append(st.Proc, bp)
		return false, nil
	})
	if err != nil {
		return nil, err
	}
	np, err := k.ProcessID.Peek(ctx)
	if err != nil {
		return nil, err
	}
	st.NextPid = st.sm(np)
	q, err := k.EthTxQueue.Get(ctx)
	if err != nil {
		return nil, err
	}
	st.Cursor = st.sm(q.BlockNumber)
	st.QDeposits, st.QPaid, st.QRejected = []BDeposit{}, []BPaid{}, []int64{}
	for _, d := range q.Deposits {
		st.QDeposits = append(st.QDeposits, BDeposit{Txid: H6(d.Txid), Vout: int64(d.Txout), Evm: hex.EncodeToString(d.Address), Amount: st.sm(d.Amount), Tax: st.sm(d.Tax)})
	}
	for _, p := range q.PaidWithdrawals {
		bp := BPaid{ID: st.sm(p.Id)}
		if p.Receipt != nil {
			bp.Txid, bp.Txout, bp.Amount = H6(p.Receipt.Txid), int64(p.Receipt.Txout), st.sm(p.Receipt.Amount)
		}
		st.QPaid = append(st.QPaid, bp)
	}
	for _, id := range q.RejectedWithdrawals {
		st.QRejected = append(st.QRejected, st.sm(id))
	}
	n, err := k.EthTxNonce.Peek(ctx)
	if err != nil {
		return nil, err
	}
	st.Nonce = st.sm(n)
	p, err := k.Params.Get(ctx)
	if err != nil {
		return nil, err
	}
	st.Params.MinDeposit, st.Params.TaxRate, st.Params.MaxTax, st.Params.Conf, st.Params.Network = Clamp(p.MinDepositAmount), Clamp(p.DepositTaxRate), Clamp(p.MaxDepositTax), Clamp(p.ConfirmationNumber), p.NetworkName
	return st, nil
}
