package project

import (
	"fmt"

	"goatverif/sim"
)

type Head struct {
	Hash   string `json:"hash"`
	Number int64  `json:"number"`
	Parent string `json:"parent"`
}

// HandoverState is the committed state as the Handover specification sees it.
type HandoverState struct {
	Head   Head                `json:"head"`
	Beacon string              `json:"beacon"`
	Q      map[string][]string `json:"q"`
	Nonce  struct {
		Bridge  int64 `json:"bridge"`
		Locking int64 `json:"locking"`
	} `json:"nonce"`
}

// SysID is the opaque id of a system transaction / queue item.
func SysID(t SysTx) (string, string) {
	switch t.Kind {
	case "newblock":
		return "hash", t.Hash
	case "deposit":
		return "deposit", fmt.Sprintf("%s/%d", t.Txid, t.TxOut)
	case "paid":
		return "paid", fmt.Sprintf("p%d", t.ID)
	case "cancel2":
		return "reject", fmt.Sprintf("r%d", t.ID)
	case "reward":
		return "reward", fmt.Sprintf("w%d", t.ID)
	case "unlock":
		return "unlock", fmt.Sprintf("u%d", t.ID)
	}
	return "bad", "bad"
}

// Handover projects the committed consensus/execution state and both delivery queues.
func Handover(c *sim.Chain) (*HandoverState, error) {
	ctx := c.ReadCtx()
	st := &HandoverState{Q: map[string][]string{"hash": {}, "deposit": {}, "paid": {}, "reject": {}, "reward": {}, "unlock": {}}}
	blk, err := c.App.GoatKeeper.Block.Get(ctx)
	if err != nil {
		return nil, err
	}
	st.Head = Head{Hash: H6(blk.BlockHash), Number: int64(blk.BlockNumber), Parent: H6(blk.ParentHash)}
	br, err := c.App.GoatKeeper.BeaconRoot.Get(ctx)
	if err != nil {
		return nil, err
	}
	st.Beacon = H6(br)
	bk := c.App.BitcoinKeeper
	q, err := bk.EthTxQueue.Get(ctx)
	if err != nil {
		return nil, err
	}
	tip, err := bk.BlockTip.Peek(ctx)
	if err != nil {
		return nil, err
	}
	for h := q.BlockNumber + 1; h <= tip; h++ {
		hash, err := bk.BlockHashes.Get(ctx, h)
		if err != nil {
			st.Q["hash"] = append(st.Q["hash"], fmt.Sprintf("missing%d", h))
			continue
		}
		st.Q["hash"] = append(st.Q["hash"], H6(hash))
	}
	for _, d := range q.Deposits {
		st.Q["deposit"] = append(st.Q["deposit"], fmt.Sprintf("%s/%d", H6(d.Txid), d.Txout))
	}
	for _, p := range q.PaidWithdrawals {
		st.Q["paid"] = append(st.Q["paid"], fmt.Sprintf("p%d", p.Id))
	}
	for _, id := range q.RejectedWithdrawals {
		st.Q["reject"] = append(st.Q["reject"], fmt.Sprintf("r%d", id))
	}
	n, err := bk.EthTxNonce.Peek(ctx)
	if err != nil {
		return nil, err
	}
	st.Nonce.Bridge = int64(n)
	lk := c.App.LockingKeeper
	lq, err := lk.EthTxQueue.Get(ctx)
	if err != nil {
		return nil, err
	}
	for _, r := range lq.Rewards {
		st.Q["reward"] = append(st.Q["reward"], fmt.Sprintf("w%d", r.Id))
	}
	for _, u := range lq.Unlocks {
		st.Q["unlock"] = append(st.Q["unlock"], fmt.Sprintf("u%d", u.Id))
	}
	ln, err := lk.EthTxNonce.Peek(ctx)
	if err != nil {
		return nil, err
	}
	st.Nonce.Locking = int64(ln)
	return st, nil
}
