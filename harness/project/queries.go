package project

import (
	"cosmossdk.io/collections"
	"crypto/sha256"
	"encoding/hex"
	"fmt"

	"github.com/cosmos/gogoproto/proto"
	bitcoinkeeper "github.com/goatnetwork/goat/x/bitcoin/keeper"
	bitcointypes "github.com/goatnetwork/goat/x/bitcoin/types"
	goatkeeper "github.com/goatnetwork/goat/x/goat/keeper"
	goattypes "github.com/goatnetwork/goat/x/goat/types"
	lockingkeeper "github.com/goatnetwork/goat/x/locking/keeper"
	lockingtypes "github.com/goatnetwork/goat/x/locking/types"
	relayerkeeper "github.com/goatnetwork/goat/x/relayer/keeper"
	relayertypes "github.com/goatnetwork/goat/x/relayer/types"
	"goatverif/sim"
)

// QueryAnswers calls every gRPC query handler of the four modules (parameterless ones, and the keyed ones for every known
// validator, relayer member, withdrawal id and deposited outpoint) and returns name -> digest of the answer (or of the error).
func QueryAnswers(c *sim.Chain, withdrawalIDs []uint64, evmAddrs []string) map[string]string {
	ctx := c.ReadCtx()
	out := map[string]string{}
	put := func(name string, m proto.Message, err error) {
		if err != nil {
			out[name] = "error:" + err.Error()
			return
		}
		bz, _ := proto.Marshal(m)
		h := sha256.Sum256(bz)
		out[name] = hex.EncodeToString(h[:8])
	}
	bq := bitcoinkeeper.NewQueryServerImpl(c.App.BitcoinKeeper)
	r1, e := bq.Params(ctx, &bitcointypes.QueryParamsRequest{})
	put("bitcoin/Params", r1, e)
	r2, e := bq.Pubkey(ctx, &bitcointypes.QueryPubkeyRequest{})
	put("bitcoin/Pubkey", r2, e)
	r3, e := bq.BlockTip(ctx, &bitcointypes.QueryBlockTipRequest{})
	put("bitcoin/BlockTip", r3, e)
	for _, id := range withdrawalIDs {
		r, e := bq.Withdrawal(ctx, &bitcointypes.QueryWithdrawalRequest{Id: id})
		put(fmt.Sprintf("bitcoin/Withdrawal/%d", id), r, e)
	}
	for _, a := range evmAddrs {
		for v := uint32(0); v < 2; v++ {
			r, e := bq.DepositAddress(ctx, &bitcointypes.QueryDepositAddress{Version: v, EvmAddress: a})
			put(fmt.Sprintf("bitcoin/DepositAddress/%s/%d", a[:8], v), r, e)
		}
	}
	// HasDeposited: every credited outpoint (asked the way a client asks: the transaction id in display order) is reported as
	// deposited, the neighbouring output index is not (unless it was credited too)
	credited := map[string]bool{}
	var outs [][2]interface{}
	_ = c.App.BitcoinKeeper.Deposited.Walk(ctx, nil, func(key collections.Pair[[]byte, uint32], _ uint64) (bool, error) {
		credited[fmt.Sprintf("%x/%d", key.K1(), key.K2())] = true
		outs = append(outs, [2]interface{}{append([]byte{}, key.K1()...), key.K2()})
		return false, nil
	})
	for _, o := range outs {
		txid, vout := o[0].([]byte), o[1].(uint32)
		if len(txid) != 32 {
			continue
		}
		rev := make([]byte, 32)
		for i := range txid {
			rev[31-i] = txid[i]
		}
		for _, vo := range []uint32{vout, vout + 1} {
			r, e := bq.HasDeposited(ctx, &bitcointypes.QueryHasDeposited{Txid: hex.EncodeToString(rev), Txout: vo})
			if e == nil && r.Yes != credited[fmt.Sprintf("%x/%d", txid, vo)] {
				out[fmt.Sprintf("bitcoin/HasDeposited/%x/%d", txid[:6], vo)] = fmt.Sprintf("WRONG:%v", r.Yes)
				continue
			}
			put(fmt.Sprintf("bitcoin/HasDeposited/%x/%d", txid[:6], vo), r, e)
		}
	}
	rq := relayerkeeper.NewQueryServerImpl(c.App.RelayerKeeper)
	q1, e := rq.Params(ctx, &relayertypes.QueryParamsRequest{})
	put("relayer/Params", q1, e)
	q2, e := rq.Relayer(ctx, &relayertypes.QueryRelayerRequest{})
	put("relayer/Relayer", q2, e)
	q3, e := rq.Pubkeys(ctx, &relayertypes.QueryPubkeysRequest{})
	put("relayer/Pubkeys", q3, e)
	for i, m := range c.KR.Members {
		r, e := rq.Voter(ctx, &relayertypes.QueryVoterRequest{Address: m.Bech})
		put(fmt.Sprintf("relayer/Voter/%d", i+1), r, e)
	}
	lq := lockingkeeper.NewQueryServerImpl(c.App.LockingKeeper)
	l1, e := lq.Params(ctx, &lockingtypes.QueryParamsRequest{})
	put("locking/Params", l1, e)
	for i, v := range c.KR.Vals {
		r, e := lq.Validator(ctx, &lockingtypes.QueryValidatorRequest{Address: "0x" + hex.EncodeToString(v.Addr)})
		put(fmt.Sprintf("locking/Validator/%d", i+1), r, e)
	}
	gq := goatkeeper.NewQueryServerImpl(c.App.GoatKeeper)
	g1, e := gq.EthBlockTip(ctx, &goattypes.QueryEthBlockTipRequest{})
	put("goat/EthBlockTip", g1, e)
	return out
}
