// Package project maps the real module state to the abstract state of the TLA+ specifications.
package project

import (
	"bytes"
	"crypto/sha256"
	"encoding/hex"
	"sort"

	storetypes "cosmossdk.io/store/types"
	sdk "github.com/cosmos/cosmos-sdk/types"
	relayertypes "github.com/goatnetwork/goat/x/relayer/types"
	"goatverif/sim"
)

type VoterRec struct {
	Status string `json:"status"`
	Key    string `json:"key"`
	Height int64  `json:"height"`
}

type RelayerState struct {
	Proposer    int        `json:"proposer"`
	Voters      []int      `json:"voters"`
	Epoch       int64      `json:"epoch"`
	LastElected int64      `json:"lastElected"`
	Accepted    bool       `json:"accepted"`
	Rec         []VoterRec `json:"rec"` // indexed by member id-1
	OnQ         []int      `json:"onQ"`
	OffQ        []int      `json:"offQ"`
	Seq         int64      `json:"seq"`
	Randao      string     `json:"randao"` // hex of the accumulator (opaque)
	Pubkeys     []string   `json:"pubkeys"`
	Accounts    []int      `json:"accounts"`
	Unknown     int        `json:"unknown"` // voter records / list entries for identities outside the keyring
	Tip         int64      `json:"tip"`     // bitcoin module: latest voted height
	CurKey      string     `json:"curKey"`  // bitcoin module: latest relayer key
}

var voterStatus = map[relayertypes.VoterStatus]string{
	relayertypes.VOTER_STATUS_UNSPECIFIED:  "unspecified",
	relayertypes.VOTER_STATUS_PENDING:      "pending",
	relayertypes.VOTER_STATUS_ON_BOARDING:  "on",
	relayertypes.VOTER_STATUS_OFF_BOARDING: "off",
	relayertypes.VOTER_STATUS_ACTIVATED:    "active",
}

func ids(kr *sim.Keyring, addrs []string, unknown *int) []int {
	out := make([]int, 0, len(addrs))
	for _, a := range addrs {
		id := kr.MemberID(a)
		if id == 0 {
			*unknown++
		}
		out = append(out, id)
	}
	return out
}

// Relayer projects x/relayer.
func Relayer(c *sim.Chain) (*RelayerState, error) {
	ctx := c.ReadCtx()
	k := c.App.RelayerKeeper
	kr := c.KR
	st := &RelayerState{}
	rl, err := k.Relayer.Get(ctx)
	if err != nil {
		return nil, err
	}
	st.Proposer = kr.MemberID(rl.Proposer)
	st.Voters = ids(kr, rl.Voters, &st.Unknown)
	st.Epoch = int64(rl.Epoch)
	st.LastElected = c.TickOf(rl.LastElected)
	st.Accepted = rl.ProposerAccepted
	seq, err := k.Sequence.Peek(ctx)
	if err != nil {
		return nil, err
	}
	st.Seq = int64(seq)
	q, err := k.Queue.Get(ctx)
	if err != nil {
		return nil, err
	}
	st.OnQ = ids(kr, q.OnBoarding, &st.Unknown)
	st.OffQ = ids(kr, q.OffBoarding, &st.Unknown)
	rd, err := k.Randao.Get(ctx)
	if err != nil {
		return nil, err
	}
	st.Randao = hex.EncodeToString(rd)
	st.Rec = make([]VoterRec, len(kr.Members))
	for i := range st.Rec {
		st.Rec[i] = VoterRec{Status: "none", Key: "none"}
	}
	err = k.Voters.Walk(ctx, nil, func(addr string, v relayertypes.Voter) (bool, error) {
		id := kr.MemberID(addr)
		if id == 0 {
			st.Unknown++
			return false, nil
		}
		m := kr.Members[id-1]
		key := "other"
		switch {
		case bytes.Equal(v.VoteKey, m.BlsPK):
			key = "key"
		case bytes.Equal(v.VoteKey, m.BlsPKH):
			key = "hash"
		}
		if !bytes.Equal(v.Address, m.Addr) {
			key = "badaddr"
		}
		st.Rec[id-1] = VoterRec{Status: voterStatus[v.Status], Key: key, Height: int64(v.Height)}
		return false, nil
	})
	if err != nil {
		return nil, err
	}
	err = k.Pubkeys.Walk(ctx, nil, func(raw []byte) (bool, error) {
		st.Pubkeys = append(st.Pubkeys, hex.EncodeToString(raw[:5]))
		return false, nil
	})
	if err != nil {
		return nil, err
	}
	sort.Strings(st.Pubkeys)
	if st.Pubkeys == nil {
		st.Pubkeys = []string{}
	}
	if tip, err := c.App.BitcoinKeeper.BlockTip.Peek(ctx); err == nil {
		st.Tip = int64(tip)
	}
	if pk, err := c.App.BitcoinKeeper.Pubkey.Get(ctx); err == nil {
		st.CurKey = hex.EncodeToString(relayertypes.EncodePublicKey(&pk)[:5])
	}
	st.Accounts = []int{}
	for i, m := range kr.Members {
		if c.App.AccountKeeper.HasAccount(ctx, sdk.AccAddress(m.Addr)) {
			st.Accounts = append(st.Accounts, i+1)
		}
	}
	return st, nil
}

// StoreDigest hashes every key/value of a module store (opaque state identity).
func StoreDigest(c *sim.Chain, storeName string) string {
	key := c.App.GetKey(storeName)
	if key == nil {
		return "nostore"
	}
	ctx := c.ReadCtx()
	it := ctx.KVStore(key).Iterator(nil, nil)
	defer it.Close()
	h := sha256.New()
	for ; it.Valid(); it.Next() {
		h.Write(it.Key())
		h.Write([]byte{0})
		h.Write(it.Value())
		h.Write([]byte{1})
	}
	return hex.EncodeToString(h.Sum(nil)[:8])
}

var _ storetypes.StoreKey
