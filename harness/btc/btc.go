// Package btc builds real Bitcoin transactions, headers and scripts for the drivers.
package btc

import (
	"bytes"
	"encoding/binary"
	"math/rand"

	"github.com/btcsuite/btcd/btcec/v2/schnorr"
	"github.com/btcsuite/btcd/chaincfg/chainhash"
	"github.com/btcsuite/btcd/txscript"
	"github.com/btcsuite/btcd/wire"
	goatcrypto "github.com/goatnetwork/goat/pkg/crypto"
	relayertypes "github.com/goatnetwork/goat/x/relayer/types"
)

// SystemScript is the output script that pays the relayer key (P2WPKH for ECDSA keys, P2TR for Schnorr keys).
func SystemScript(pub *relayertypes.PublicKey) []byte {
	switch v := pub.GetKey().(type) {
	case *relayertypes.PublicKey_Secp256K1:
		s, _ := txscript.NewScriptBuilder().AddOp(txscript.OP_0).AddData(goatcrypto.Hash160Sum(v.Secp256K1)).Script()
		return s
	case *relayertypes.PublicKey_Schnorr:
		pk, err := schnorr.ParsePubKey(v.Schnorr)
		if err != nil {
			panic(err)
		}
		s, _ := txscript.NewScriptBuilder().AddOp(txscript.OP_1).AddData(schnorr.SerializePubKey(txscript.ComputeTaprootKeyNoScript(pk))).Script()
		return s
	}
	return nil
}

// Out is one transaction output.
type Out struct {
	Value  int64
	Script []byte
}

// Tx builds a one-input transaction (random outpoint) with the given outputs and returns the
// no-witness serialisation and the txid (double SHA-256, internal byte order).
func Tx(r *rand.Rand, outs []Out, pad int) ([]byte, []byte) {
	tx := wire.NewMsgTx(2)
	var prev chainhash.Hash
	r.Read(prev[:])
	in := wire.NewTxIn(wire.NewOutPoint(&prev, uint32(r.Intn(4))), nil, nil)
	if pad > 0 {
		in.SignatureScript = make([]byte, pad)
	}
	tx.AddTxIn(in)
	for _, o := range outs {
		tx.AddTxOut(wire.NewTxOut(o.Value, o.Script))
	}
	var buf bytes.Buffer
	if err := tx.SerializeNoWitness(&buf); err != nil {
		panic(err)
	}
	raw := buf.Bytes()
	return raw, goatcrypto.DoubleSHA256Sum(raw)
}

// Header builds an 80-byte block header with the given Merkle root.
func Header(r *rand.Rand, prev, merkleRoot []byte) []byte {
	h := make([]byte, 80)
	binary.LittleEndian.PutUint32(h[0:4], 0x20000000)
	copy(h[4:36], prev)
	copy(h[36:68], merkleRoot)
	binary.LittleEndian.PutUint32(h[68:72], uint32(1_700_000_000+r.Intn(1000)))
	binary.LittleEndian.PutUint32(h[72:76], 0x207fffff)
	binary.LittleEndian.PutUint32(h[76:80], r.Uint32())
	return h
}

func BlockHash(header []byte) []byte { return goatcrypto.DoubleSHA256Sum(header) }
