package sim

import (
	"encoding/json"
	"time"

	"cosmossdk.io/math"
	abci "github.com/cometbft/cometbft/abci/types"
	"github.com/cosmos/cosmos-sdk/codec"
	codectypes "github.com/cosmos/cosmos-sdk/codec/types"
	cryptotypes "github.com/cosmos/cosmos-sdk/crypto/types"
	sdk "github.com/cosmos/cosmos-sdk/types"
	authtypes "github.com/cosmos/cosmos-sdk/x/auth/types"
	"github.com/ethereum/go-ethereum/common"
	bitcointypes "github.com/goatnetwork/goat/x/bitcoin/types"
	goattypes "github.com/goatnetwork/goat/x/goat/types"
	lockingtypes "github.com/goatnetwork/goat/x/locking/types"
	relayertypes "github.com/goatnetwork/goat/x/relayer/types"
)

// Genesis collects the module genesis states a driver wants; zero values get defaults.
type Genesis struct {
	Relayer  *relayertypes.GenesisState
	Bitcoin  *bitcointypes.GenesisState
	Locking  *lockingtypes.GenesisState
	Goat     *goattypes.GenesisState
	Accounts []cryptotypes.PubKey // accounts that exist from genesis (with their public keys)
}

// Ticks converts model time units to a duration.
func Ticks(n int64) time.Duration { return time.Duration(n) * TickSeconds * time.Second }

// GenesisEthBlock is the execution genesis block the chain starts from.
func GenesisEthBlock() goattypes.ExecutionPayload {
	h := common.HexToHash("0x1111111111111111111111111111111111111111111111111111111111111111")
	return goattypes.ExecutionPayload{
		ParentHash: make([]byte, 32), FeeRecipient: make([]byte, 20), StateRoot: make([]byte, 32),
		ReceiptsRoot: make([]byte, 32), LogsBloom: make([]byte, 256), PrevRandao: make([]byte, 32),
		BlockNumber: 0, GasLimit: 30_000_000, ExtraData: GoatExtra(0, nil), BaseFeePerGas: math.NewInt(7),
		BlockHash: h[:], BeaconRoot: make([]byte, 32),
	}
}

// DefaultRelayer builds a relayer genesis with the given proposer and voters (indexes into kr.Members).
func DefaultRelayer(kr *Keyring, genesis time.Time, proposer int, voters []int, electing, acceptTimeout int64) *relayertypes.GenesisState {
	gs := &relayertypes.GenesisState{
		Params:  relayertypes.Params{ElectingPeriod: Ticks(electing), AcceptProposerTimeout: Ticks(acceptTimeout)},
		Relayer: &relayertypes.Relayer{Epoch: 0, Proposer: kr.Members[proposer].Bech, LastElected: genesis, ProposerAccepted: true},
		Randao:  make([]byte, 32),
	}
	add := func(i int) {
		m := kr.Members[i]
		gs.Voters = append(gs.Voters, relayertypes.Voter{Address: m.Addr, VoteKey: m.BlsPK, Status: relayertypes.VOTER_STATUS_ACTIVATED})
	}
	add(proposer)
	for _, v := range voters {
		gs.Relayer.Voters = append(gs.Relayer.Voters, kr.Members[v].Bech)
		add(v)
	}
	return gs
}

// GenVal describes one genesis validator.
type GenVal struct {
	Val     int // index into kr.Vals
	Power   uint64
	Locking sdk.Coins
	Status  lockingtypes.ValidatorStatus
}

func DefaultLocking(kr *Keyring, vals []GenVal, params lockingtypes.Params, tokens []*lockingtypes.TokenGenesis) *lockingtypes.GenesisState {
	gs := lockingtypes.DefaultGenesis()
	gs.Params = params
	gs.Tokens = tokens
	for _, gv := range vals {
		st := gv.Status
		if st == lockingtypes.Unspecified {
			st = lockingtypes.Active
		}
		gs.Validators = append(gs.Validators, lockingtypes.Validator{
			Pubkey: kr.Vals[gv.Val].Pub.Key, Power: gv.Power, Locking: gv.Locking,
			Reward: math.ZeroInt(), GasReward: math.ZeroInt(), Status: st,
		})
	}
	return gs
}

// SmallLockingParams are locking parameters scaled to model time units and small windows.
func SmallLockingParams(maxVals int64) lockingtypes.Params {
	return lockingtypes.Params{
		UnlockDuration: Ticks(2), ExitingDuration: Ticks(4), DowntimeJailDuration: Ticks(3),
		MaxValidators: maxVals, SignedBlocksWindow: 3, MaxMissedPerWindow: 2,
		SlashFractionDoubleSign: math.LegacyNewDecWithPrec(5, 1), SlashFractionDowntime: math.LegacyNewDecWithPrec(25, 2),
		HalvingInterval: 5, InitialBlockReward: 8,
	}
}

// AppState assembles the app-state map from the application's defaults plus the overrides.
func (c *Chain) AppState(g Genesis) (map[string]json.RawMessage, []abci.ValidatorUpdate, error) {
	cdc := c.App.AppCodec()
	state := c.App.DefaultGenesis()

	// auth accounts
	var accs []authtypes.GenesisAccount
	seen := map[string]bool{}
	for _, pk := range g.Accounts {
		addr := sdk.AccAddress(pk.Address())
		if seen[string(addr)] {
			continue
		}
		seen[string(addr)] = true
		acc := authtypes.NewBaseAccountWithAddress(addr)
		if err := acc.SetPubKey(pk); err != nil {
			return nil, nil, err
		}
		if err := acc.SetAccountNumber(uint64(len(accs))); err != nil {
			return nil, nil, err
		}
		accs = append(accs, acc)
	}
	authGen := authtypes.NewGenesisState(authtypes.DefaultParams(), accs)
	state[authtypes.ModuleName] = cdc.MustMarshalJSON(authGen)

	if g.Relayer != nil {
		state[relayertypes.ModuleName] = cdc.MustMarshalJSON(g.Relayer)
	}
	if g.Bitcoin != nil {
		state[bitcointypes.ModuleName] = cdc.MustMarshalJSON(g.Bitcoin)
	}
	var vals []abci.ValidatorUpdate
	if g.Locking != nil {
		state[lockingtypes.ModuleName] = cdc.MustMarshalJSON(g.Locking)
		for _, v := range g.Locking.Validators {
			if v.Status == lockingtypes.Active {
				vals = append(vals, abci.ValidatorUpdate{Power: int64(v.Power), PubKey: v.CMPubkey()})
			}
		}
	}
	goatGen := g.Goat
	if goatGen == nil {
		goatGen = &goattypes.GenesisState{Params: goattypes.DefaultParams(), EthBlock: GenesisEthBlock(), BeaconRoot: make([]byte, 32)}
	}
	state[goattypes.ModuleName] = cdc.MustMarshalJSON(goatGen)
	return state, vals, nil
}

var (
	_ = codec.NewProtoCodec
	_ = codectypes.NewInterfaceRegistry
)
