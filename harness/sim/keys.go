package sim

import (
	"bytes"
	"crypto/sha256"
	"fmt"
	"sort"

	"github.com/btcsuite/btcd/btcec/v2"
	"github.com/btcsuite/btcd/btcec/v2/schnorr"
	"github.com/cosmos/cosmos-sdk/crypto/keys/secp256k1"
	sdk "github.com/cosmos/cosmos-sdk/types"
	"github.com/ethereum/go-ethereum/common"
	goatcrypto "github.com/goatnetwork/goat/pkg/crypto"
	relayertypes "github.com/goatnetwork/goat/x/relayer/types"
	blst "github.com/supranational/blst/bindings/go"
)

// ValKey is one consensus validator identity.
type ValKey struct {
	Priv *secp256k1.PrivKey
	Pub  *secp256k1.PubKey
	Addr []byte // 20 bytes: consensus address == account address == EL validator address
}

func (v *ValKey) EthAddr() common.Address { return common.BytesToAddress(v.Addr) }

// Uncompressed returns the 64-byte X||Y form the execution layer reports on creation.
func (v *ValKey) Uncompressed() (out [64]byte) {
	pk, err := btcec.ParsePubKey(v.Pub.Key)
	if err != nil {
		panic(err)
	}
	copy(out[:], pk.SerializeUncompressed()[1:])
	return
}

// Member is one relayer identity (transaction key + BLS vote key).
type Member struct {
	Priv   *secp256k1.PrivKey
	Pub    *secp256k1.PubKey
	Addr   []byte
	Bech   string
	BlsSK  *goatcrypto.PrivateKey
	BlsPK  []byte // 96 bytes compressed G2
	BlsPKH []byte // sha256 of BlsPK (what the execution layer registers)
}

func (m *Member) EthAddr() common.Address { return common.BytesToAddress(m.Addr) }

// Keyring holds every identity a driver may use. Identities are sorted by address so that a
// model id order (1..n) agrees with the byte order the application uses for tie-breaks.
type Keyring struct {
	Vals    []*ValKey
	Members []*Member
	valIdx  map[string]int
	memIdx  map[string]int
}

func secret(kind string, seed int64, i int) []byte {
	h := sha256.Sum256([]byte(fmt.Sprintf("goatverif/%s/%d/%d", kind, seed, i)))
	return h[:]
}

func NewKeyring(seed int64, nVals, nMembers int) *Keyring {
	kr := &Keyring{valIdx: map[string]int{}, memIdx: map[string]int{}}
	for i := 0; i < nVals; i++ {
		priv := secp256k1.GenPrivKeyFromSecret(secret("val", seed, i))
		pub := priv.PubKey().(*secp256k1.PubKey)
		kr.Vals = append(kr.Vals, &ValKey{Priv: priv, Pub: pub, Addr: pub.Address().Bytes()})
	}
	sort.Slice(kr.Vals, func(a, b int) bool { return bytes.Compare(kr.Vals[a].Addr, kr.Vals[b].Addr) < 0 })
	for i, v := range kr.Vals {
		kr.valIdx[string(v.Addr)] = i
	}
	for i := 0; i < nMembers; i++ {
		priv := secp256k1.GenPrivKeyFromSecret(secret("member", seed, i))
		pub := priv.PubKey().(*secp256k1.PubKey)
		sk := blst.KeyGenV3(secret("bls", seed, i))
		pk := new(goatcrypto.PublicKey).From(sk).Compress()
		pkh := sha256.Sum256(pk)
		addr := pub.Address().Bytes()
		kr.Members = append(kr.Members, &Member{
			Priv: priv, Pub: pub, Addr: addr, Bech: sdk.MustBech32ifyAddressBytes("goat", addr),
			BlsSK: sk, BlsPK: pk, BlsPKH: pkh[:],
		})
	}
	sort.Slice(kr.Members, func(a, b int) bool { return bytes.Compare(kr.Members[a].Addr, kr.Members[b].Addr) < 0 })
	for i, m := range kr.Members {
		kr.memIdx[m.Bech] = i
	}
	return kr
}

// ValID returns the 1-based model id of a validator address, 0 if unknown.
func (kr *Keyring) ValID(addr []byte) int {
	if i, ok := kr.valIdx[string(addr)]; ok {
		return i + 1
	}
	return 0
}

// MemberID returns the 1-based model id of a relayer member (bech32 address), 0 if unknown.
func (kr *Keyring) MemberID(bech string) int {
	if i, ok := kr.memIdx[bech]; ok {
		return i + 1
	}
	return 0
}

func (kr *Keyring) MemberIDByAddr(addr []byte) int {
	return kr.MemberID(sdk.MustBech32ifyAddressBytes("goat", addr))
}

// BtcKey is a relayer Bitcoin key (what deposits pay to).
type BtcKey struct {
	Priv *btcec.PrivateKey
	Pub  *relayertypes.PublicKey
}

func NewBtcKey(seed int64, i int, schnorrKey bool) *BtcKey {
	priv, pub := btcec.PrivKeyFromBytes(secret("btc", seed, i))
	if schnorrKey {
		return &BtcKey{Priv: priv, Pub: &relayertypes.PublicKey{Key: &relayertypes.PublicKey_Schnorr{Schnorr: schnorr.SerializePubKey(pub)}}}
	}
	return &BtcKey{Priv: priv, Pub: &relayertypes.PublicKey{Key: &relayertypes.PublicKey_Secp256K1{Secp256K1: pub.SerializeCompressed()}}}
}
