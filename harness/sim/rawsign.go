package sim

import (
	"fmt"

	cryptotypes "github.com/cosmos/cosmos-sdk/crypto/types"
	sdk "github.com/cosmos/cosmos-sdk/types"
	txtypes "github.com/cosmos/cosmos-sdk/types/tx"
)

// ResignWithValue takes a well-formed signed transaction (SIGN_MODE_DIRECT, one signer), replaces the VALUE bytes of its first
// message (the packed Any) by what mutate returns and signs the new body with the same key: a transaction whose signature is
// genuine although no Go encoder would ever have produced its message bytes (omitted, emptied or repeated protobuf fields).
func (c *Chain) ResignWithValue(txBytes []byte, priv cryptotypes.PrivKey, mutate func(value []byte) []byte) ([]byte, error) {
	var raw txtypes.TxRaw
	if err := raw.Unmarshal(txBytes); err != nil {
		return nil, err
	}
	var body txtypes.TxBody
	if err := body.Unmarshal(raw.BodyBytes); err != nil {
		return nil, err
	}
	if len(body.Messages) == 0 || len(raw.Signatures) != 1 {
		return nil, fmt.Errorf("unexpected transaction shape")
	}
	body.Messages[0].Value = mutate(body.Messages[0].Value)
	bb, err := body.Marshal()
	if err != nil {
		return nil, err
	}
	var ai txtypes.AuthInfo
	if err := ai.Unmarshal(raw.AuthInfoBytes); err != nil {
		return nil, err
	}
	num, _, _ := c.Account(sdk.AccAddress(priv.PubKey().Address()))
	doc := txtypes.SignDoc{BodyBytes: bb, AuthInfoBytes: raw.AuthInfoBytes, ChainId: c.ChainID, AccountNumber: num}
	db, err := doc.Marshal()
	if err != nil {
		return nil, err
	}
	sig, err := priv.Sign(db)
	if err != nil {
		return nil, err
	}
	out := txtypes.TxRaw{BodyBytes: bb, AuthInfoBytes: raw.AuthInfoBytes, Signatures: [][]byte{sig}}
	return out.Marshal()
}
