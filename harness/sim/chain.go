package sim

import (
	"bytes"
	"context"
	"crypto/sha256"
	"encoding/binary"
	"encoding/json"
	"fmt"
	"os"
	"path/filepath"
	"runtime"
	"time"

	"cosmossdk.io/log"
	abci "github.com/cometbft/cometbft/abci/types"
	cmtsecp "github.com/cometbft/cometbft/crypto/secp256k1"
	cmtjson "github.com/cometbft/cometbft/libs/json"
	"github.com/cometbft/cometbft/privval"
	cmtproto "github.com/cometbft/cometbft/proto/tendermint/types"
	cmttypes "github.com/cometbft/cometbft/types"
	dbm "github.com/cosmos/cosmos-db"
	"github.com/cosmos/cosmos-sdk/baseapp"
	"github.com/cosmos/cosmos-sdk/client"
	clienttx "github.com/cosmos/cosmos-sdk/client/tx"
	"github.com/cosmos/cosmos-sdk/codec"
	cryptotypes "github.com/cosmos/cosmos-sdk/crypto/types"
	sdk "github.com/cosmos/cosmos-sdk/types"
	"github.com/cosmos/cosmos-sdk/types/mempool"
	"github.com/cosmos/cosmos-sdk/types/tx/signing"
	xauthsigning "github.com/cosmos/cosmos-sdk/x/auth/signing"
	authtx "github.com/cosmos/cosmos-sdk/x/auth/tx"
	"github.com/ethereum/go-ethereum/beacon/engine"
	"github.com/ethereum/go-ethereum/common"
	"github.com/ethereum/go-ethereum/rpc"
	"github.com/goatnetwork/goat/app"
	goattypes "github.com/goatnetwork/goat/x/goat/types"
)

// Chain is one node: the real application, its database and its fake execution engine.
type Chain struct {
	InitTime *time.Time // genesis time handed to InitChain (default: Genesis)
	ChainID  string
	KR       *Keyring
	NodeVal  int // index into KR.Vals of the validator whose key this node signs with

	App   *app.App
	DB    dbm.DB
	Eng   *Engine
	TxCfg client.TxConfig

	dir     string
	sock    string
	rpcSrv  *rpc.Server
	closeLn func()

	Height        int64 // last finalized (or initial-1 right after InitChain)
	InitialHeight int64
	Genesis       time.Time
	uncommitted   bool // FinalizeBlock done (or InitChain), Commit not yet
	afterInit     bool

	// CometBFT's view: Sets[h] is the validator set that signs height h.
	Sets map[int64]*cmttypes.ValidatorSet

	Logger log.Logger
}

// MempoolMaxTx is the size of the application mempool (the daemon's default configuration is 10; operators may raise it).
var MempoolMaxTx = 10

type appOpts map[string]interface{}

func (o appOpts) Get(k string) interface{} { return o[k] }

// TickSeconds is the real length of one model time unit.
const TickSeconds = 60

func (c *Chain) TimeAt(tick int64) time.Time {
	return c.Genesis.Add(time.Duration(tick) * TickSeconds * time.Second)
}

func (c *Chain) TickOf(t time.Time) int64 {
	return int64(t.Sub(c.Genesis) / (TickSeconds * time.Second))
}

// NewChain creates the directory, key file and engine endpoint, and opens the application on db.
func NewChain(chainID string, kr *Keyring, nodeVal int, db dbm.DB) (*Chain, error) {
	dir, err := os.MkdirTemp("", "goatverif-")
	if err != nil {
		return nil, err
	}
	c := &Chain{ChainID: chainID, KR: kr, NodeVal: nodeVal, DB: db, dir: dir, Eng: NewEngine(),
		Sets: map[int64]*cmttypes.ValidatorSet{}, Logger: log.NewNopLogger(),
		Genesis: time.Unix(1_700_000_000, 0).UTC()}
	if os.Getenv("GOATVERIF_LOG") != "" {
		c.Logger = log.NewLogger(os.Stderr)
	}

	// validator key file as cometbft writes it
	priv := cmtsecp.PrivKey(kr.Vals[nodeVal].Priv.Key)
	pv := privval.FilePVKey{Address: priv.PubKey().Address(), PubKey: priv.PubKey(), PrivKey: priv}
	bz, err := cmtjson.MarshalIndent(pv, "", "  ")
	if err != nil {
		return nil, err
	}
	if err := os.WriteFile(filepath.Join(dir, "priv_validator_key.json"), bz, 0o600); err != nil {
		return nil, err
	}

	c.sock = filepath.Join(dir, "geth.ipc")
	ln, srv, err := rpc.StartIPCEndpoint(c.sock, []rpc.API{{Namespace: "engine", Service: &EngineAPI{E: c.Eng}}})
	if err != nil {
		return nil, err
	}
	c.rpcSrv = srv
	c.closeLn = func() { ln.Close(); srv.Stop() }

	if err := c.open(); err != nil {
		return nil, err
	}
	return c, nil
}

func (c *Chain) open() error {
	opts := appOpts{"goat.geth": c.sock, "priv_validator_key_file": "priv_validator_key.json", "home": c.dir}
	a, err := app.New(c.Logger, c.DB, nil, true, opts,
		baseapp.SetChainID(c.ChainID), baseapp.SetMempool(mempool.NewSenderNonceMempool(mempool.SenderNonceMaxTxOpt(MempoolMaxTx))))
	if err != nil {
		return err
	}
	c.App = a
	c.TxCfg = authtx.NewTxConfig(codec.NewProtoCodec(a.AppCodec().InterfaceRegistry()), authtx.DefaultSignModes)
	return nil
}

// Restart drops the application instance (losing everything not committed) and re-opens the DB.
func (c *Chain) Restart() error {
	if c.App != nil {
		c.App.EthClient.(interface{ Close() }).Close()
	}
	c.App = nil
	// a restarted process starts with empty pools: two collections empty every sync.Pool (primary and victim cache), so that
	// state kept in pooled buffers does not survive the restart here either
	runtime.GC()
	runtime.GC()
	if err := c.open(); err != nil {
		return err
	}
	c.uncommitted = false
	c.afterInit = false
	c.Height = c.App.LastBlockHeight()
	return nil
}

func (c *Chain) Close() {
	if c.App != nil {
		if cl, ok := c.App.EthClient.(interface{ Close() }); ok {
			cl.Close()
		}
	}
	if c.closeLn != nil {
		c.closeLn()
	}
	os.RemoveAll(c.dir)
}

func DefaultConsensusParams() *cmtproto.ConsensusParams {
	cp := cmttypes.DefaultConsensusParams().ToProto()
	cp.Validator.PubKeyTypes = []string{cmttypes.ABCIPubKeyTypeSecp256k1}
	cp.Block.MaxGas = -1
	return &cp
}

// InitChain initialises the chain from module genesis states.
func (c *Chain) InitChain(appState map[string]json.RawMessage, vals []abci.ValidatorUpdate, initialHeight int64, cp *cmtproto.ConsensusParams) (*abci.ResponseInitChain, error) {
	bz, err := json.Marshal(appState)
	if err != nil {
		return nil, err
	}
	if cp == nil {
		cp = DefaultConsensusParams()
	}
	initTime := c.Genesis
	if c.InitTime != nil { // a chain started from an exported state: its genesis time is the restart time, not the old chain's
		initTime = *c.InitTime
	}
	res, err := c.App.InitChain(&abci.RequestInitChain{
		Time: initTime, ChainId: c.ChainID, ConsensusParams: cp, Validators: vals,
		AppStateBytes: bz, InitialHeight: initialHeight,
	})
	if err != nil {
		return nil, err
	}
	// the engine knows the execution block the chain starts from
	if blk, err := c.App.GoatKeeper.Block.Get(c.App.NewContextLegacy(false, cmtproto.Header{})); err == nil {
		c.Eng.Known[common.BytesToHash(blk.BlockHash)] = goattypes.PayloadToExecutableData(&blk)
	}
	c.InitialHeight = initialHeight
	c.Height = initialHeight - 1
	c.uncommitted = true
	c.afterInit = true

	// comet: validators of the response if any, else of the request
	src := res.Validators
	if len(src) == 0 {
		src = vals
	}
	set, err := valSetFromUpdates(src)
	if err != nil {
		return res, err
	}
	c.Sets = map[int64]*cmttypes.ValidatorSet{initialHeight: set, initialHeight + 1: set.Copy()}
	return res, nil
}

func valSetFromUpdates(ups []abci.ValidatorUpdate) (*cmttypes.ValidatorSet, error) {
	vals, err := cmttypes.PB2TM.ValidatorUpdates(ups)
	if err != nil {
		return nil, err
	}
	vs := &cmttypes.ValidatorSet{}
	if len(vals) == 0 {
		return vs, nil
	}
	if err := vs.UpdateWithChangeSet(vals); err != nil {
		return nil, err
	}
	return vs, nil
}

// ReadCtx returns a context over the most recent state (uncommitted writes included).
func (c *Chain) ReadCtx() sdk.Context {
	hdr := cmtproto.Header{ChainID: c.ChainID, Height: c.Height, Time: c.Genesis}
	if c.afterInit {
		return c.App.NewContextLegacy(false, hdr)
	}
	return c.App.NewUncachedContext(false, hdr)
}

// BlockHash is the deterministic consensus block hash the drivers use for (chain, height, round).
func BlockHash(chainID string, height int64, round int) []byte {
	var b [12]byte
	binary.BigEndian.PutUint64(b[:8], uint64(height))
	binary.BigEndian.PutUint32(b[8:], uint32(round))
	h := sha256.Sum256(append([]byte("cometblock/"+chainID+"/"), b[:]...))
	return h[:]
}

// Vote is one entry of the last commit.
type Vote struct {
	Val    int // index into KR.Vals
	Power  int64
	Absent bool
}

// Block carries everything CometBFT would put in the ABCI requests of one height.
type Block struct {
	Height      int64
	Round       int
	Time        time.Time
	Proposer    int // index into KR.Vals
	Votes       []Vote
	Misbehavior []abci.Misbehavior
	Txs         [][]byte
}

func (b *Block) Hash(chainID string) []byte { return BlockHash(chainID, b.Height, b.Round) }

func (c *Chain) commitInfo(votes []Vote) abci.CommitInfo {
	ci := abci.CommitInfo{}
	for _, v := range votes {
		flag := cmtproto.BlockIDFlagCommit
		if v.Absent {
			flag = cmtproto.BlockIDFlagAbsent
		}
		ci.Votes = append(ci.Votes, abci.VoteInfo{
			Validator:   abci.Validator{Address: c.KR.Vals[v.Val].Addr, Power: v.Power},
			BlockIdFlag: flag,
		})
	}
	return ci
}

// DefaultVotes builds the last-commit for height h from CometBFT's set for h-1; absent lists validator indexes.
func (c *Chain) DefaultVotes(h int64, absent map[int]bool) []Vote {
	set := c.Sets[h-1]
	if set == nil || h == c.InitialHeight {
		return nil
	}
	var out []Vote
	for _, v := range set.Validators {
		id := c.KR.ValID(v.Address)
		if id == 0 {
			continue
		}
		out = append(out, Vote{Val: id - 1, Power: v.VotingPower, Absent: absent[id-1]})
	}
	return out
}

// Prepare calls the real PrepareProposal (only meaningful when b.Proposer is this node's validator).
// Prepare calls the real PrepareProposal. The application gives its two engine calls 1.2 seconds of WALL-CLOCK time; on an
// overloaded machine the scripted engine (a well-behaved one, no fault installed) can miss that, and the application falls
// back to a proposal without an execution block - which says nothing about the code. Such an attempt (it took a second or
// more, no fault was scripted) is repeated; a failure that comes back quickly, or under a scripted fault, is returned as is.
func (c *Chain) Prepare(b *Block, mempoolTxs [][]byte) (*abci.ResponsePrepareProposal, error) {
	for try := 0; ; try++ {
		t0 := time.Now()
		pp, err := c.App.PrepareProposal(&abci.RequestPrepareProposal{
			MaxTxBytes: 20 * 1024 * 1024, Txs: mempoolTxs,
			LocalLastCommit: abci.ExtendedCommitInfo{}, Misbehavior: b.Misbehavior,
			Height: b.Height, Time: b.Time, ProposerAddress: c.KR.Vals[b.Proposer].Addr,
		})
		if err != nil || try >= 8 || c.Eng.HasFault() || time.Since(t0) < time.Second || !sameTxs(pp.Txs, mempoolTxs) {
			return pp, err
		}
		c.Eng.TakeLog() // the calls of the attempt that ran out of time
	}
}

// sameTxs: the fallback proposal of the application is the list of mempool transactions it was given.
func sameTxs(a, b [][]byte) bool {
	if len(a) != len(b) {
		return false
	}
	for i := range a {
		if !bytes.Equal(a[i], b[i]) {
			return false
		}
	}
	return true
}

func (c *Chain) Process(b *Block) (*abci.ResponseProcessProposal, error) {
	return c.App.ProcessProposal(&abci.RequestProcessProposal{
		Txs: b.Txs, ProposedLastCommit: c.commitInfo(b.Votes), Misbehavior: b.Misbehavior,
		Hash: b.Hash(c.ChainID), Height: b.Height, Time: b.Time, ProposerAddress: c.KR.Vals[b.Proposer].Addr,
	})
}

// Finalize executes the block. On error the instance must be restarted (as a real node would crash).
func (c *Chain) Finalize(b *Block) (res *abci.ResponseFinalizeBlock, err error) {
	// a panic that escapes FinalizeBlock takes a real node down: report it like a failed block (the chain stops here)
	defer func() {
		if p := recover(); p != nil {
			res, err = nil, fmt.Errorf("panic in FinalizeBlock: %v", p)
		}
	}()
	res, err = c.App.FinalizeBlock(&abci.RequestFinalizeBlock{
		Txs: b.Txs, DecidedLastCommit: c.commitInfo(b.Votes), Misbehavior: b.Misbehavior,
		Hash: b.Hash(c.ChainID), Height: b.Height, Time: b.Time, ProposerAddress: c.KR.Vals[b.Proposer].Addr,
	})
	if err != nil {
		return nil, err
	}
	c.Height = b.Height
	c.uncommitted = true
	c.afterInit = false
	return res, nil
}

// ApplyUpdates feeds the validator updates of height h to CometBFT's validator-set logic.
// The returned error is CometBFT's verdict on the update list.
func (c *Chain) ApplyUpdates(h int64, ups []abci.ValidatorUpdate) error {
	base := c.Sets[h+1]
	if base == nil {
		base = c.Sets[h]
	}
	next := base.Copy()
	var cmErr error
	if len(ups) > 0 {
		vals, err := cmttypes.PB2TM.ValidatorUpdates(ups)
		if err != nil {
			cmErr = err
		} else if err := next.UpdateWithChangeSet(vals); err != nil {
			cmErr = err
			next = base.Copy()
		}
	}
	c.Sets[h+2] = next
	delete(c.Sets, h-3)
	return cmErr
}

func (c *Chain) Commit() error {
	_, err := c.App.Commit()
	if err == nil {
		c.uncommitted = false
		c.afterInit = false
	}
	return err
}

// Account returns (number, sequence) of an account in the latest state.
func (c *Chain) Account(addr []byte) (uint64, uint64, bool) {
	acc := c.App.AccountKeeper.GetAccount(c.ReadCtx(), addr)
	if acc == nil {
		return 0, 0, false
	}
	return acc.GetAccountNumber(), acc.GetSequence(), true
}

// SignOpts tweak the transaction envelope (for the ante table of C10).
type SignOpts struct {
	Memo          string
	TimeoutHeight uint64
	SeqDelta      int64 // added to the account sequence used for signing
	BadSig        bool
	GasLimit      uint64
	ExtraSigner   cryptotypes.PrivKey // second signer (its messages must name it)
	AccNum        *uint64
	Seq           *uint64
}

// SignTx builds and signs a transaction with the given messages.
func (c *Chain) SignTx(priv cryptotypes.PrivKey, msgs []sdk.Msg, o SignOpts) ([]byte, error) {
	addr := sdk.AccAddress(priv.PubKey().Address())
	num, seq, _ := c.Account(addr)
	if o.AccNum != nil {
		num = *o.AccNum
	}
	if o.Seq != nil {
		seq = *o.Seq
	}
	seq = uint64(int64(seq) + o.SeqDelta)
	b := c.TxCfg.NewTxBuilder()
	gl := o.GasLimit
	if gl == 0 {
		gl = 1e8
	}
	b.SetGasLimit(gl)
	b.SetMemo(o.Memo)
	b.SetTimeoutHeight(o.TimeoutHeight)
	if err := b.SetMsgs(msgs...); err != nil {
		return nil, err
	}
	mode := signing.SignMode(c.TxCfg.SignModeHandler().DefaultMode())
	type signer struct {
		priv     cryptotypes.PrivKey
		num, seq uint64
	}
	signers := []signer{{priv, num, seq}}
	if o.ExtraSigner != nil {
		n2, s2, _ := c.Account(sdk.AccAddress(o.ExtraSigner.PubKey().Address()))
		signers = append(signers, signer{o.ExtraSigner, n2, s2})
	}
	var empty []signing.SignatureV2
	for _, s := range signers {
		empty = append(empty, signing.SignatureV2{PubKey: s.priv.PubKey(), Data: &signing.SingleSignatureData{SignMode: mode}, Sequence: s.seq})
	}
	if err := b.SetSignatures(empty...); err != nil {
		return nil, err
	}
	var sigs []signing.SignatureV2
	for _, s := range signers {
		bech := sdk.MustBech32ifyAddressBytes("goat", s.priv.PubKey().Address())
		sig, err := clienttx.SignWithPrivKey(context.Background(), mode, xauthsigning.SignerData{
			Address: bech, ChainID: c.ChainID, AccountNumber: s.num, Sequence: s.seq, PubKey: s.priv.PubKey(),
		}, b, s.priv, c.TxCfg, s.seq)
		if err != nil {
			return nil, err
		}
		if o.BadSig {
			d := sig.Data.(*signing.SingleSignatureData)
			d.Signature[5] ^= 0x40
		}
		sigs = append(sigs, sig)
	}
	if err := b.SetSignatures(sigs...); err != nil {
		return nil, err
	}
	return c.TxCfg.TxEncoder()(b.GetTx())
}

// HonestPayload builds the execution payload an honest proposer would obtain from a well-behaved
// engine at the current state: the due system transactions first, then the scripted user transactions
// and execution-layer requests.
func (c *Chain) HonestPayload(proposer int, ts uint64) (*goattypes.ExecutionPayload, error) {
	ctx, _ := c.ReadCtx().CacheContext()
	parent, err := c.App.GoatKeeper.Block.Get(ctx)
	if err != nil {
		return nil, err
	}
	beacon, err := c.App.GoatKeeper.BeaconRoot.Get(ctx)
	if err != nil {
		return nil, err
	}
	goatTxs, err := c.App.GoatKeeper.Dequeue(ctx)
	if err != nil {
		return nil, err
	}
	br := common.BytesToHash(beacon)
	var random common.Hash
	copy(random[:], BlockHash(c.ChainID, int64(parent.BlockNumber)+1, 77))
	env := c.Eng.Build(common.BytesToHash(parent.BlockHash), parent.BlockNumber, &engine.PayloadAttributes{
		Timestamp: ts, Random: random, SuggestedFeeRecipient: common.BytesToAddress(c.KR.Vals[proposer].Addr),
		BeaconRoot: &br, GoatTxs: goatTxs,
	})
	return goattypes.ExecutableDataToPayload(env.ExecutionPayload, beacon, env.Requests), nil
}

// BlockTx wraps a payload into the signed execution-block transaction of the given proposer.
func (c *Chain) BlockTx(proposer int, height int64, payload *goattypes.ExecutionPayload, o SignOpts) ([]byte, error) {
	v := c.KR.Vals[proposer]
	if o.TimeoutHeight == 0 {
		o.TimeoutHeight = uint64(height)
	}
	msg := &goattypes.MsgNewEthBlock{Proposer: sdk.MustBech32ifyAddressBytes("goat", v.Addr), Payload: payload}
	return c.SignTx(v.Priv, []sdk.Msg{msg}, o)
}

func mustJSON(v interface{}) json.RawMessage {
	bz, err := json.Marshal(v)
	if err != nil {
		panic(err)
	}
	return bz
}

var _ = fmt.Sprintf
