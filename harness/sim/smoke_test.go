package sim

import (
	"testing"
	"time"

	dbm "github.com/cosmos/cosmos-db"
	cryptotypes "github.com/cosmos/cosmos-sdk/crypto/types"
	sdk "github.com/cosmos/cosmos-sdk/types"
	"github.com/ethereum/go-ethereum/core/types/goattypes"
	bitcointypes "github.com/goatnetwork/goat/x/bitcoin/types"
	"math/big"
)

func TestSmoke(t *testing.T) {
	kr := NewKeyring(1, 3, 3)
	t0 := time.Now()
	c, err := NewChain("goat-test-1", kr, 0, dbm.NewMemDB())
	if err != nil {
		t.Fatal(err)
	}
	defer c.Close()
	t.Log("app.New", time.Since(t0))
	btc := NewBtcKey(1, 0, false)
	bg := bitcointypes.DefaultGenesis()
	bg.Pubkey = btc.Pub
	rg := DefaultRelayer(kr, c.Genesis, 0, []int{1, 2}, 10, 5)
	rg.Pubkeys = append(rg.Pubkeys, btc.Pub)
	lg := DefaultLocking(kr, []GenVal{{Val: 0, Power: 10, Locking: sdk.NewCoins(sdk.NewInt64Coin("btc", 10))}}, SmallLockingParams(2), nil)
	var accs []cryptotypes.PubKey
	accs = append(accs, kr.Vals[0].Pub)
	for _, m := range kr.Members {
		accs = append(accs, m.Pub)
	}
	st, vals, err := c.AppState(Genesis{Relayer: rg, Bitcoin: bg, Locking: lg, Accounts: accs})
	if err != nil {
		t.Fatal(err)
	}
	if _, err := c.InitChain(st, vals, 1, nil); err != nil {
		t.Fatal(err)
	}
	for h := int64(1); h <= 4; h++ {
		t1 := time.Now()
		b := &Block{Height: h, Time: c.TimeAt(h), Proposer: 0, Votes: c.DefaultVotes(h, nil)}
		gas := goattypes.LockingRequests{Gas: []*goattypes.GasRequest{goattypes.NewGasRequest(uint64(h), big.NewInt(3))}}
		c.Eng.NextRequests = gas.Encode()
		if h%2 == 1 {
			pp, err := c.Prepare(b, nil)
			if err != nil {
				t.Fatal(err)
			}
			b.Txs = pp.Txs
		} else {
			pl, err := c.HonestPayload(0, uint64(time.Now().Unix()))
			if err != nil {
				t.Fatal(err)
			}
			tx, err := c.BlockTx(0, h, pl, SignOpts{})
			if err != nil {
				t.Fatal(err)
			}
			b.Txs = [][]byte{tx}
		}
		pr, err := c.Process(b)
		if err != nil || pr.Status != 1 {
			t.Fatal("process", err, pr)
		}
		fr, err := c.Finalize(b)
		if err != nil {
			t.Fatal(err)
		}
		for i, r := range fr.TxResults {
			t.Log("tx", i, r.Code, r.Log, r.GasUsed)
		}
		if err := c.ApplyUpdates(h, fr.ValidatorUpdates); err != nil {
			t.Fatal(err)
		}
		if err := c.Commit(); err != nil {
			t.Fatal(err)
		}
		t.Log("block", h, time.Since(t1), c.Eng.TakeLog())
	}
	t2 := time.Now()
	if err := c.Restart(); err != nil {
		t.Fatal(err)
	}
	t.Log("restart", time.Since(t2), c.Height)
}
