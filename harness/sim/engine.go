// Package sim runs the real goat application in-process against a scripted
// Engine-API server that stands in for goat-geth.
package sim

import (
	"context"
	"crypto/sha256"
	"encoding/binary"
	"encoding/hex"
	"errors"
	"fmt"
	"math/big"
	"sync"
	"time"

	"github.com/ethereum/go-ethereum/beacon/engine"
	"github.com/ethereum/go-ethereum/common"
	"github.com/ethereum/go-ethereum/common/hexutil"
	"github.com/ethereum/go-ethereum/params"
)

// Fault kinds the engine can be scripted with.
const (
	FaultNone      = ""
	FaultError     = "error"
	FaultInvalid   = "INVALID"
	FaultSyncing   = "SYNCING"
	FaultAccepted  = "ACCEPTED"
	FaultNilID     = "nilPayloadId"
	FaultTimeout   = "timeout"
	FaultUnknownPl = "unknownPayload"
)

// EngineCall is one observed engine call (for the engine log of C07/C09).
type EngineCall struct {
	Method string `json:"m"`
	Head   string `json:"head,omitempty"`
	Safe   string `json:"safe,omitempty"`
	Fin    string `json:"fin,omitempty"`
	Attr   bool   `json:"attr,omitempty"`
	Hash   string `json:"hash,omitempty"`
	Parent string `json:"parent,omitempty"`
	Number uint64 `json:"num,omitempty"`
	Fault  string `json:"fault,omitempty"`
	NGoat  int    `json:"ngoat,omitempty"`
}

// Engine is the fake goat-geth. It is shared by the RPC service below.
type Engine struct {
	mu sync.Mutex

	// Known executable payloads by hash (what newPayload has seen or getPayload built).
	Known map[common.Hash]*engine.ExecutableData
	built map[engine.PayloadID]*engine.ExecutionPayloadEnvelope
	nid   uint64

	// What the execution layer will emit in the next built block.
	NextRequests [][]byte
	NextUserTxs  [][]byte
	// When set, mutates the built payload before it is returned (faulty proposer / EL).
	Mutate func(*engine.ExecutionPayloadEnvelope)

	Head, Safe, Fin common.Hash

	Log []EngineCall

	// FaultAt returns the fault kind for the n-th (0-based, per method since last ResetCounters)
	// call of the given method; nil means well-behaved.
	FaultAt  func(method string, n int, attr bool) string
	counters map[string]int

	// Gate, when non-nil, is called at the start of NewPayloadV4 and may block (scheduler gate for C08).
	Gate func(method string)

	Timeout time.Duration
}

func NewEngine() *Engine {
	return &Engine{
		Known:    map[common.Hash]*engine.ExecutableData{},
		built:    map[engine.PayloadID]*engine.ExecutionPayloadEnvelope{},
		counters: map[string]int{},
		Timeout:  1500 * time.Millisecond,
	}
}

// SetFault installs (or clears, with nil) the fault script.
func (e *Engine) SetFault(f func(method string, n int, attr bool) string) {
	e.mu.Lock()
	defer e.mu.Unlock()
	e.FaultAt = f
	e.counters = map[string]int{}
}

// HasFault: a fault script is installed.
func (e *Engine) HasFault() bool {
	e.mu.Lock()
	defer e.mu.Unlock()
	return e.FaultAt != nil
}

func (e *Engine) ResetCounters() {
	e.mu.Lock()
	defer e.mu.Unlock()
	e.counters = map[string]int{}
}

func (e *Engine) TakeLog() []EngineCall {
	e.mu.Lock()
	defer e.mu.Unlock()
	l := e.Log
	e.Log = nil
	return l
}

func (e *Engine) fault(method string, attr bool) string {
	key := method
	if attr {
		key += "+attr"
	}
	n := e.counters[key]
	e.counters[key] = n + 1
	if e.FaultAt == nil {
		return FaultNone
	}
	return e.FaultAt(method, n, attr)
}

// GoatExtra builds the 33-byte extra data whose first byte is the number of system transactions.
func GoatExtra(n int, goatTxs [][]byte) []byte {
	extra := make([]byte, params.GoatHeaderExtraLengthV0)
	extra[0] = byte(n)
	h := sha256.New()
	for _, t := range goatTxs {
		h.Write(t)
	}
	copy(extra[1:], h.Sum(nil))
	return extra
}

// PayloadHash is a deterministic stand-in for the block hash (ideal hash over the fields that matter).
func PayloadHash(d *engine.ExecutableData, beaconRoot common.Hash, requests [][]byte) common.Hash {
	h := sha256.New()
	h.Write(d.ParentHash[:])
	h.Write(d.FeeRecipient[:])
	var b [8]byte
	binary.BigEndian.PutUint64(b[:], d.Number)
	h.Write(b[:])
	binary.BigEndian.PutUint64(b[:], d.Timestamp)
	h.Write(b[:])
	h.Write(d.Random[:])
	h.Write(d.ExtraData)
	for _, t := range d.Transactions {
		h.Write([]byte{0xfe})
		h.Write(t)
	}
	// a real block hash covers EVERY header field: whatever the application changes between receiving a payload and telling
	// the engine about it shows up as another block
	h.Write(d.StateRoot[:])
	h.Write(d.ReceiptsRoot[:])
	h.Write(d.LogsBloom)
	binary.BigEndian.PutUint64(b[:], d.GasLimit)
	h.Write(b[:])
	binary.BigEndian.PutUint64(b[:], d.GasUsed)
	h.Write(b[:])
	if d.BaseFeePerGas != nil {
		h.Write(d.BaseFeePerGas.Bytes())
	}
	for _, x := range []*uint64{d.BlobGasUsed, d.ExcessBlobGas} {
		v := uint64(0)
		if x != nil {
			v = *x
		}
		binary.BigEndian.PutUint64(b[:], v)
		h.Write(b[:])
	}
	h.Write(beaconRoot[:])
	for _, r := range requests {
		h.Write([]byte{0xfd})
		h.Write(r)
	}
	return common.BytesToHash(h.Sum(nil))
}

// Build assembles the child payload of parent as goat-geth would: system transactions first.
func (e *Engine) Build(parent common.Hash, parentNumber uint64, attrs *engine.PayloadAttributes) *engine.ExecutionPayloadEnvelope {
	txs := make([][]byte, 0, len(attrs.GoatTxs)+len(e.NextUserTxs))
	txs = append(txs, attrs.GoatTxs...)
	txs = append(txs, e.NextUserTxs...)
	zero := uint64(0)
	// header fields vary from block to block the way a real chain's do (deterministically, from the block number): every one of
	// them must come back unchanged when the application later tells the engine about this payload
	n := parentNumber + 1
	excess := uint64(0)
	if n%5 == 3 {
		excess = 131072 * (1 + n%3) // no blob gas USED, but the running excess of earlier blocks is not zero
	}
	var stateRoot, receiptsRoot common.Hash
	binary.BigEndian.PutUint64(stateRoot[:8], n*1000003)
	binary.BigEndian.PutUint64(receiptsRoot[8:16], n*7919)
	data := &engine.ExecutableData{
		ParentHash:    parent,
		FeeRecipient:  attrs.SuggestedFeeRecipient,
		LogsBloom:     make([]byte, 256),
		Random:        attrs.Random,
		Number:        parentNumber + 1,
		GasLimit:      30_000_000 + n%1024,
		GasUsed:       21_000 * (n % 7),
		StateRoot:     stateRoot,
		ReceiptsRoot:  receiptsRoot,
		Timestamp:     attrs.Timestamp,
		ExtraData:     GoatExtra(len(attrs.GoatTxs), attrs.GoatTxs),
		BaseFeePerGas: big.NewInt(int64(7 + n%13)),
		Transactions:  txs,
		BlobGasUsed:   &zero,
		ExcessBlobGas: &excess,
	}
	reqs := e.NextRequests
	if reqs == nil {
		reqs = [][]byte{}
	}
	var br common.Hash
	if attrs.BeaconRoot != nil {
		br = *attrs.BeaconRoot
	}
	data.BlockHash = PayloadHash(data, br, reqs)
	env := &engine.ExecutionPayloadEnvelope{ExecutionPayload: data, BlockValue: big.NewInt(0), Requests: reqs}
	if e.Mutate != nil {
		e.Mutate(env)
	}
	return env
}

// EngineAPI is the JSON-RPC service (namespace "engine").
type EngineAPI struct{ E *Engine }

func (a *EngineAPI) GetChainConfig() *params.ChainConfig {
	return &params.ChainConfig{ChainID: big.NewInt(48815), Goat: &params.GoatConfig{}}
}

func hs(h common.Hash) string { return hex.EncodeToString(h[:6]) }

func (a *EngineAPI) ForkchoiceUpdatedV3(ctx context.Context, st engine.ForkchoiceStateV1, attrs *engine.PayloadAttributes) (engine.ForkChoiceResponse, error) {
	e := a.E
	e.mu.Lock()
	f := e.fault("fcu", attrs != nil)
	call := EngineCall{Method: "fcu", Head: hs(st.HeadBlockHash), Safe: hs(st.SafeBlockHash), Fin: hs(st.FinalizedBlockHash), Attr: attrs != nil, Fault: f}
	if attrs != nil {
		call.NGoat = len(attrs.GoatTxs)
	}
	e.Log = append(e.Log, call)
	switch f {
	case FaultError:
		e.mu.Unlock()
		return engine.ForkChoiceResponse{}, errors.New("scripted engine error")
	case FaultTimeout:
		e.mu.Unlock()
		select {
		case <-ctx.Done():
		case <-time.After(e.Timeout):
		}
		return engine.ForkChoiceResponse{}, errors.New("scripted engine timeout")
	case FaultInvalid, FaultSyncing, FaultAccepted:
		e.mu.Unlock()
		return engine.ForkChoiceResponse{PayloadStatus: engine.PayloadStatusV1{Status: f}}, nil
	}
	defer e.mu.Unlock()
	resp := engine.ForkChoiceResponse{PayloadStatus: engine.PayloadStatusV1{Status: engine.VALID, LatestValidHash: &st.HeadBlockHash}}
	if attrs == nil {
		e.Head, e.Safe, e.Fin = st.HeadBlockHash, st.SafeBlockHash, st.FinalizedBlockHash
		return resp, nil
	}
	var num uint64
	if p, ok := e.Known[st.HeadBlockHash]; ok {
		num = p.Number
	}
	env := e.Build(st.HeadBlockHash, num, attrs)
	if f == FaultNilID {
		return resp, nil
	}
	e.nid++
	var id engine.PayloadID
	binary.BigEndian.PutUint64(id[:], e.nid)
	e.built[id] = env
	resp.PayloadID = &id
	return resp, nil
}

func (a *EngineAPI) GetPayloadV4(ctx context.Context, id engine.PayloadID) (*engine.ExecutionPayloadEnvelope, error) {
	e := a.E
	e.mu.Lock()
	f := e.fault("getPayload", false)
	e.Log = append(e.Log, EngineCall{Method: "getPayload", Fault: f})
	env := e.built[id]
	e.mu.Unlock()
	switch f {
	case FaultError, FaultUnknownPl:
		return nil, errors.New("scripted engine error")
	case FaultTimeout:
		select {
		case <-ctx.Done():
		case <-time.After(e.Timeout):
		}
		return nil, errors.New("scripted engine timeout")
	}
	if env == nil {
		return nil, fmt.Errorf("unknown payload %x", id)
	}
	return env, nil
}

func (a *EngineAPI) NewPayloadV4(ctx context.Context, data engine.ExecutableData, blobs []common.Hash, beaconRoot *common.Hash, reqs []hexutil.Bytes) (engine.PayloadStatusV1, error) {
	e := a.E
	if e.Gate != nil {
		e.Gate("newPayload")
	}
	e.mu.Lock()
	f := e.fault("newPayload", false)
	e.Log = append(e.Log, EngineCall{Method: "newPayload", Hash: hs(data.BlockHash), Parent: hs(data.ParentHash), Number: data.Number, Fault: f})
	e.mu.Unlock()
	switch f {
	case FaultError:
		return engine.PayloadStatusV1{}, errors.New("scripted engine error")
	case FaultTimeout:
		select {
		case <-ctx.Done():
		case <-time.After(e.Timeout):
		}
		return engine.PayloadStatusV1{}, errors.New("scripted engine timeout")
	case FaultInvalid, FaultSyncing, FaultAccepted:
		return engine.PayloadStatusV1{Status: f}, nil
	}
	e.mu.Lock()
	defer e.mu.Unlock()
	if _, ok := e.Known[data.BlockHash]; ok { // already imported (e.g. the genesis block, or a block re-announced)
		return engine.PayloadStatusV1{Status: engine.VALID, LatestValidHash: &data.BlockHash}, nil
	}
	// a well-behaved engine re-computes the hash and rejects inconsistent payloads
	var br common.Hash
	if beaconRoot != nil {
		br = *beaconRoot
	}
	rs := make([][]byte, len(reqs))
	for i := range reqs {
		rs[i] = reqs[i]
	}
	if PayloadHash(&data, br, rs) != data.BlockHash {
		msg := "block hash mismatch"
		return engine.PayloadStatusV1{Status: engine.INVALID, ValidationError: &msg}, nil
	}
	if len(data.ExtraData) != params.GoatHeaderExtraLengthV0 {
		msg := "bad extra"
		return engine.PayloadStatusV1{Status: engine.INVALID, ValidationError: &msg}, nil
	}
	cp := data
	e.Known[data.BlockHash] = &cp
	return engine.PayloadStatusV1{Status: engine.VALID, LatestValidHash: &data.BlockHash}, nil
}
